(** C10 at system level (resource manager + event queue): in every state reached
    by executing events, either no waiting request is feasible or an
    availability check is pending at the current instant; hence when the clock
    is about to advance no feasible request is still waiting. *)
From Coq Require Import ZArith List Bool Lia Sorting.Sorted Sorting.Permutation.
From SimVerif Require Import Model.Base Model.Env Model.FamEnv Model.RM Model.FamRM.
From SimVerif Require Import Proofs.Lex Proofs.EnvInv Proofs.RMInv Proofs.RMScan.
Import ListNotations.
Open Scope Z_scope.

Local Opaque rm_fuel check_pending run_rops.

Section RMSys.
  Variable sc : rm_scn.
  Variable ws : nat -> Z.
  Hypothesis cbs_wf : forall k, Forall rop_wf (nth k (rq_cbs sc) []).
  Hypothesis def_wf : forall k, Forall rop_wf (nth k (rq_def sc) []).

  Notation env := (env ract).
  Notation event := (event ract).

  (** the manager's calls only add events and datapoints *)
  Lemma apply_rcmds (l : list rcmd) : forall (en en' : env),
    apply_cmds ws en (map to_cmd l) = Ok en' ->
    now en' = now en /\ paused en' = paused en /\ terminated en' = terminated en /\
    (forall ev, In ev (queue en) -> In ev (queue en')) /\
    (forall t p a act, In (RSched t p a act) l ->
       exists ev, In ev (queue en') /\ e_time ev = t /\ e_act ev = Some act /\ e_cancelled ev = false).
  Proof.
    induction l as [|c l IH]; intros en en' H; cbn in H.
    - injection H as <-. repeat split; auto. intros t p a act [].
    - destruct c as [t p a act|lb sb d]; cbn in H.
      + unfold schedule in H. destruct (t <? now en) eqn:Lt; [discriminate|].
        match type of H with apply_cmds _ ?e1 _ = _ => set (en1 := e1) in * end.
        destruct (IH en1 en' H) as [H1 [H2 [H3 [H4 H5]]]].
        split; [exact H1|]. split; [exact H2|]. split; [exact H3|]. split.
        * intros ev Hev. apply H4. cbn -[insort]. apply insort_in. right. exact Hev.
        * intros t' p' a' act' [E|Hin]; [|eapply H5; eauto].
          injection E as -> -> -> ->.
          eexists. split; [apply H4; cbn -[insort]; apply insort_in; left; reflexivity|]. repeat split.
      + destruct (IH (add_data en lb sb d) en' H) as [H1 [H2 [H3 [H4 H5]]]].
        repeat split; auto. intros t p a act [E|Hin]; [discriminate|eapply H5; eauto].
  Qed.

  Definition pending_check (en : env) : Prop :=
    exists ev, In ev (queue en) /\ e_act ev = Some ACheck /\ e_time ev = now en /\ e_cancelled ev = false.

  Record SysInv (s : rs * env) : Prop := {
    si_rinv : RInv (fst s);
    si_env : r_env (fst s) = true;
    si_out : r_out (fst s) = [];
    si_err : r_err (fst s) = 0;
    si_einv : Inv ract (snd s);
    si_live : infeasible_all (r_pools (fst s)) (r_wait (fst s)) \/ pending_check (snd s) }.

  Definition cbs := fun k => nth k (rq_cbs sc) [].

  (** result of executing an action body [w1] (already computed) and flushing its calls *)
  Lemma after_action (w w1 : rs) (en1 en2 : env) :
    RInv w1 -> r_env w1 = true -> r_err w1 = 0 ->
    Inv ract en2 ->
    apply_cmds ws en1 (map to_cmd (rev (r_out w1))) = Ok en2 ->
    (Chk (now en1) w1 \/ infeasible_all (r_pools w1) (r_wait w1) \/ pending_check en1) ->
    SysInv (fst (flush w1), en2).
  Proof.
    intros I EN ER IE AP H. destruct (apply_rcmds _ _ _ AP) as [H1 [H2 [H3 [H4 H5]]]].
    split; cbn; auto.
    - destruct I as [U C F SL IJ]. split; assumption.
    - destruct H as [H|[H|H]].
      + right. destruct (H5 _ _ _ _ (proj1 (in_rev _ _) H)) as [ev [A [B [C D]]]].
        exists ev. rewrite H1. auto.
      + left. exact H.
      + right. destruct H as [ev [A [B [C D]]]]. exists ev. rewrite H1. split; [apply H4, A|auto].
  Qed.

  Theorem step_SysInv s s' :
    SysInv s -> step ws (exec_rm sc) rm_wfail s = Some (Ok s') -> SysInv s'.
  Proof.
    destruct s as [w en]. intros [I EN OUT ER IE LV] H. cbn [fst snd] in *.
    unfold step in H. destruct (queue en) as [|e q] eqn:Q; [discriminate|].
    pose proof (pop_inv ract en e q IE Q) as IP. unfold popped in IP.
    set (en1 := mkEnv (e_time e) q (paused en) (next_eid en) (terminated en) (e :: dispatched en) (datalog en)) in *.
    (* the pending check, if any and if it is not e itself, is still pending after the pop *)
    assert (LV1 : infeasible_all (r_pools w) (r_wait w) \/ pending_check en1 \/
                  (e_act e = Some ACheck /\ e_cancelled e = false)).
    { destruct LV as [L|[ev [A [B [C D]]]]]; [left; exact L|]. rewrite Q in A. destruct A as [<-|A].
      - right. right. auto.
      - right. left. exists ev. split; [exact A|]. split; [exact B|]. split; [|exact D]. cbn.
        destruct IE as [S F _ _ _ _]. rewrite Q in S, F. inversion S as [|? ? _ FS]; subst. inversion F as [|? ? Fe _]; subst.
        rewrite Forall_forall in FS. pose proof (le_ev_time ract _ _ (FS ev A)). lia. }
    destruct (e_cancelled e) eqn:CE.
    - injection H as <-. split; cbn; auto. destruct LV1 as [L|[L|[_ L]]]; [left; exact L|right; exact L|discriminate].
    - destruct (e_act e) as [a|] eqn:EA.
      + destruct a as [|k]; cbn [exec_rm] in H.
        * (* an availability check *)
          set (w1 := check_pending rm_fuel (fun k => nth k (rq_cbs sc) []) (e_time e) 0 w) in *.
          unfold flush in H.
          destruct (apply_cmds ws en1 (map to_cmd (rev (r_out w1)))) as [en2|en2] eqn:AP; [|discriminate].
          unfold rm_wfail in H. cbn [r_err] in H. destruct (Z.eqb_spec (r_err w1) 0) as [E1|E1]; cbn [negb] in H; [|discriminate].
          injection H as <-.
          assert (I1 : RInv w1) by (apply check_pending_inv; [exact cbs_wf|exact I]).
          assert (EN1 : r_env w1 = true) by (unfold w1; rewrite check_pending_env; exact EN).
          assert (IE2 : Inv ract en2).
          { pose proof (apply_cmds_inv ract ws (map to_cmd (rev (r_out w1))) en1 IP) as X. rewrite AP in X. exact X. }
          apply (after_action w w1 en1 en2 I1 EN1 E1 IE2 AP).
          destruct (check_pending_complete (fun k => nth k (rq_cbs sc) []) (e_time e) rm_fuel 0 w cbs_wf I EN) as [C|C].
          -- right. constructor.
          -- exact E1.
          -- left. exact C.
          -- right. left. exact C.
        * (* a deferred user action *)
          set (w1 := run_rops (e_time e) [] (nth k (rq_def sc) []) w) in *.
          unfold flush in H.
          destruct (apply_cmds ws en1 (map to_cmd (rev (r_out w1)))) as [en2|en2] eqn:AP; [|discriminate].
          unfold rm_wfail in H. cbn [r_err] in H. destruct (Z.eqb_spec (r_err w1) 0) as [E1|E1]; cbn [negb] in H; [|discriminate].
          injection H as <-.
          assert (I1 : RInv w1) by (apply run_rops_inv; [exact I|apply def_wf]).
          assert (EN1 : r_env w1 = true) by (unfold w1; rewrite run_rops_env; exact EN).
          assert (IE2 : Inv ract en2).
          { pose proof (apply_cmds_inv ract ws (map to_cmd (rev (r_out w1))) en1 IP) as X. rewrite AP in X. exact X. }
          apply (after_action w w1 en1 en2 I1 EN1 E1 IE2 AP).
          destruct (run_rops_chk_or_quiet (e_time e) [] (nth k (rq_def sc) []) w I (def_wf k) EN) as [C|[T Wt]].
          -- left. exact C.
          -- destruct LV1 as [L|[L|[L _]]]; [|right; right; exact L|discriminate].
             right. left. fold w1 in T, Wt. rewrite Wt. unfold infeasible_all in *.
             eapply Forall_impl; [|exact L]. cbn. intros x Hx. apply T, Hx.
      + injection H as <-. split; cbn; auto.
        * apply set_terminated_inv, IP.
        * destruct LV1 as [L|[L|[L _]]]; [left; exact L|right; exact L|discriminate].
  Qed.

  (** when the clock is about to advance, no feasible request is still waiting *)
  Theorem time_advance_none_feasible (w : rs) (en : env) e q :
    SysInv (w, en) -> queue en = e :: q -> now en < e_time e ->
    infeasible_all (r_pools w) (r_wait w).
  Proof.
    intros [_ _ _ _ IE LV] Q Lt. cbn in *. destruct LV as [L|[ev [A [B [C D]]]]]; [exact L|exfalso].
    destruct IE as [S _ _ _ _ _]. rewrite Q in S, A. inversion S as [|? ? _ FS]; subst. rewrite Forall_forall in FS.
    destruct A as [<-|A]; [lia|]. pose proof (le_ev_time ract _ _ (FS ev A)). lia.
  Qed.

  (** the same invariant across calls made from outside events (add / reserve / release / merge / register) *)
  Theorem external_op_SysInv (w : rs) (en en2 : env) o :
    SysInv (w, en) -> rop_wf o ->
    let w1 := run_rop (now en) [] o w in
    r_err w1 = 0 -> apply_cmds ws en (map to_cmd (rev (r_out w1))) = Ok en2 ->
    SysInv (fst (flush w1), en2).
  Proof.
    intros [I EN OUT ER IE LV] WF w1 E1 AP. cbn [fst snd] in *.
    assert (I1 : RInv w1) by (apply run_rop_inv; assumption).
    assert (EN1 : r_env w1 = true).
    { destruct (run_rop_appended (now en) [] o w) as [[app [_ [_ [_ [_ E]]]]] _]. unfold w1. congruence. }
    assert (IE2 : Inv ract en2).
    { pose proof (apply_cmds_inv ract ws (map to_cmd (rev (r_out w1))) en IE) as X. rewrite AP in X. exact X. }
    apply (after_action w w1 en en2 I1 EN1 E1 IE2 AP).
    destruct (run_rop_chk_or_quiet (now en) [] o w I WF EN) as [C|[T Wt]]; [left; exact C|].
    destruct LV as [L|L]; [|right; right; exact L].
    right. left. fold w1 in T, Wt. rewrite Wt. unfold infeasible_all in *.
    eapply Forall_impl; [|exact L]. cbn. intros x Hx. apply T, Hx.
  Qed.

  (** the invariant is established by initialisation *)
  Theorem init_SysInv (w : rs) (en en2 : env) :
    RInv w -> r_err w = 0 -> r_out w = [] -> r_wait w = [] -> Inv ract en ->
    apply_cmds ws en (map to_cmd (rev (r_out (rm_initialize (now en) w)))) = Ok en2 ->
    r_err (rm_initialize (now en) w) = 0 ->
    SysInv (fst (flush (rm_initialize (now en) w)), en2).
  Proof.
    intros I ER OUT WT IE AP E1.
    assert (G : forall l s0, r_env (fold_left (fun s n => record (now en) n s) l s0) = r_env s0 /\
                             r_wait (fold_left (fun s n => record (now en) n s) l s0) = r_wait s0).
    { induction l as [|n l IHl]; intro s0; cbn; [auto|]. destruct (IHl (record (now en) n s0)) as [A B]. rewrite A, B. auto. }
    unfold rm_initialize in *. destruct (G (map fst (r_pools w)) (set_env w true)) as [GE GW].
    assert (IE2 : Inv ract en2).
    { match type of AP with apply_cmds _ _ ?cs = _ => pose proof (apply_cmds_inv ract ws cs en IE) as X end. rewrite AP in X. exact X. }
    apply (after_action w _ en en2); auto.
    - apply (rm_initialize_inv (now en) w I).
    - right. left. rewrite GW. cbn. rewrite WT. constructor.
  Qed.
End RMSys.
