(** ActionScheduler (C18): registration dictionary, one action call per registered
    object per state change, and the timetable arithmetic. *)
From Coq Require Import ZArith List Bool Lia PeanoNat.
From SimVerif Require Import Model.Base Model.Env Model.Sched.
Import ListNotations.
Open Scope Z_scope.

(** * registration *)
Theorem register_spec obj ov s :
  snd (s_register obj ov s) = negb (amem obj (s_reg s)) /\
  (amem obj (s_reg s) = true -> fst (s_register obj ov s) = s) /\
  (amem obj (s_reg s) = false -> s_reg (fst (s_register obj ov s)) = s_reg s ++ [(obj, ov)]).
Proof. unfold s_register. destruct (amem obj (s_reg s)); cbn; repeat split; auto; discriminate. Qed.

Theorem unregister_spec obj s :
  snd (s_unregister obj s) = amem obj (s_reg s) /\
  (amem obj (s_reg s) = false -> fst (s_unregister obj s) = s) /\
  (amem obj (s_reg s) = true -> s_reg (fst (s_unregister obj s)) = adel obj (s_reg s)).
Proof. unfold s_unregister. destruct (amem obj (s_reg s)); cbn; repeat split; auto; discriminate. Qed.

(** registration changes never touch the timetable position *)
Definition same_position (s s' : sst) : Prop :=
  s_schedule s' = s_schedule s /\ s_cyclic s' = s_cyclic s /\ s_index s' = s_index s /\ s_state s' = s_state s /\
  s_count s' = s_count s /\ s_calls s' = s_calls s.

Lemma register_position obj ov s : same_position s (fst (s_register obj ov s)).
Proof. unfold s_register. destruct (amem obj (s_reg s)); cbn; repeat split. Qed.
Lemma unregister_position obj s : same_position s (fst (s_unregister obj s)).
Proof. unfold s_unregister. destruct (amem obj (s_reg s)); cbn; repeat split. Qed.
Lemma register_out obj ov s : s_out (fst (s_register obj ov s)) = s_out s.
Proof. unfold s_register. destruct (amem obj (s_reg s)); reflexivity. Qed.
Lemma unregister_out obj s : s_out (fst (s_unregister obj s)) = s_out s.
Proof. unfold s_unregister. destruct (amem obj (s_reg s)); reflexivity. Qed.

(** * one state change *)
Definition dur_of (s : sst) (i : nat) : Z := fst (nth i (s_schedule s) (0, 0)).
Definition st_of (s : sst) (i : nat) : Z := snd (nth i (s_schedule s) (0, 0)).

(** the scheduler has run past the end of a non-cyclic timetable *)
Definition stops (s : sst) : bool := negb (s_cyclic s) && (length (s_schedule s) <=? S (s_index s))%nat.

Theorem update_spec nw s :
  let s' := s_update nw true s in
  let n := length (s_schedule s) in
  (stops s = true ->
     s_state s' = s_state s /\ s_calls s' = s_calls s /\ s_out s' = s_out s /\ s_count s' = s_count s /\ s_reg s' = s_reg s) /\
  (stops s = false ->
     let idx := Nat.modulo (S (s_index s)) n in
     s_index s' = idx /\ s_state s' = Some (st_of s idx) /\ s_count s' = S (s_count s) /\ s_reg s' = s_reg s /\
     (* exactly the currently registered objects, in registration order, once each, with (object, override, time, new state) *)
     s_calls s' = rev (map (fun r => (fst r, snd r, nw, st_of s idx)) (s_reg s)) ++ s_calls s /\
     (* one record, one next transition after the new state's duration *)
     s_out s' = SSched (nw + dur_of s idx) :: SData [nw; st_of s idx] :: s_out s).
Proof.
  unfold s_update, stops. cbv beta iota zeta. cbn [andb]. destruct (negb (s_cyclic s) && (length (s_schedule s) <=? S (s_index s))%nat) eqn:B.
  - split; [intros _; cbn; auto|discriminate].
  - split; [discriminate|]. intros _. unfold st_of, dur_of.
    destruct (nth (S (s_index s) mod length (s_schedule s)) (s_schedule s) (0, 0)) as [d st] eqn:E. cbn. repeat split.
Qed.

Theorem init_update_spec nw s :
  let s' := s_update nw false s in
  s_index s' = s_index s /\ s_state s' = Some (st_of s (s_index s)) /\ s_count s' = S (s_count s) /\ s_reg s' = s_reg s /\
  s_calls s' = rev (map (fun r => (fst r, snd r, nw, st_of s (s_index s))) (s_reg s)) ++ s_calls s /\
  s_out s' = SSched (nw + dur_of s (s_index s)) :: SData [nw; st_of s (s_index s)] :: s_out s.
Proof.
  unfold s_update, st_of, dur_of. cbv beta iota zeta. cbn [andb].
  destruct (nth (s_index s) (s_schedule s) (0, 0)) as [d st] eqn:E. cbn. repeat split.
Qed.

(** * the timetable: state k begins at t0 + sum of the durations of the states before it *)
Definition sidx (cyclic : bool) (n k : nat) : nat := if cyclic then Nat.modulo k n else k.

Fixpoint T (sched : list (Z * Z)) (cyclic : bool) (t0 : Z) (k : nat) : Z :=
  match k with
  | O => t0
  | S k' => T sched cyclic t0 k' + fst (nth (sidx cyclic (length sched) k') sched (0, 0))
  end.

(** [chain s0 t0 k s t]: starting from [s0] initialised at [t0], after [k] state changes (each
    performed exactly at the time the previous one scheduled, with arbitrary register / unregister
    calls in between) the scheduler is [s] and its next transition is due at [t] *)
Inductive chain (s0 : sst) (t0 : Z) : nat -> sst -> Z -> Prop :=
| chain_init : chain s0 t0 1 (s_update t0 false s0) (t0 + dur_of s0 0)
| chain_reg k s t s' : chain s0 t0 k s t -> same_position s s' -> chain s0 t0 k s' t
| chain_step k s t : chain s0 t0 k s t -> stops s = false ->
    chain s0 t0 (S k) (s_update t true s) (t + dur_of s (Nat.modulo (S (s_index s)) (length (s_schedule s)))).

Theorem chain_timetable s0 t0 k s t :
  s_index s0 = O -> (0 < length (s_schedule s0))%nat ->
  chain s0 t0 k s t ->
  let n := length (s_schedule s0) in
  let c := s_cyclic s0 in
  (1 <= k)%nat /\
  s_schedule s = s_schedule s0 /\ s_cyclic s = c /\
  s_index s = sidx c n (k - 1) /\
  s_state s = Some (st_of s0 (sidx c n (k - 1))) /\
  t = T (s_schedule s0) c t0 k /\
  (c = false -> (k <= n)%nat).
Proof.
  intros I0 Hn CH. induction CH as [|k s t s' CH IH SP|k s t CH IH ST]; cbn zeta in *.
  - destruct (init_update_spec t0 s0) as [A [B _]].
    assert (SS : s_schedule (s_update t0 false s0) = s_schedule s0 /\ s_cyclic (s_update t0 false s0) = s_cyclic s0).
    { unfold s_update. cbn [andb]. destruct (nth (s_index s0) (s_schedule s0) (0, 0)). cbn. auto. }
    destruct SS as [S1 S2].
    assert (X : sidx (s_cyclic s0) (length (s_schedule s0)) 0 = O).
    { unfold sidx. destruct (s_cyclic s0); [apply Nat.mod_0_l; lia|reflexivity]. }
    split; [lia|]. split; [exact S1|]. split; [exact S2|]. cbn [Nat.sub]. rewrite X.
    split; [rewrite A; exact I0|]. split; [rewrite B, I0; reflexivity|].
    split; [cbn; rewrite X; unfold dur_of; reflexivity|]. intros _. lia.
  - destruct IH as [K [S1 [S2 [IX [STt [Tt NC]]]]]]. destruct SP as [P1 [P2 [P3 [P4 _]]]].
    repeat split; try congruence; auto.
  - destruct IH as [K [S1 [S2 [IX [STt [Tt NC]]]]]].
    destruct (update_spec t s) as [_ U]. destruct (U ST) as [U1 [U2 _]]. clear U.
    assert (SS : s_schedule (s_update t true s) = s_schedule s /\ s_cyclic (s_update t true s) = s_cyclic s).
    { unfold s_update. destruct (_ && _); [cbn; auto|]. destruct (nth _ (s_schedule s) (0, 0)). cbn. auto. }
    destruct SS as [S1' S2'].
    set (n := length (s_schedule s0)) in *. set (c := s_cyclic s0) in *.
    assert (NX : Nat.modulo (S (s_index s)) (length (s_schedule s)) = sidx c n k).
    { rewrite S1, IX. fold n. unfold stops in ST. rewrite S2, S1 in ST. fold n c in ST. unfold sidx in *.
      destruct c; cbn in ST.
      - replace k with (S (k - 1)) at 2 by lia. rewrite <- Nat.add_1_r. rewrite Nat.add_mod_idemp_l by lia.
        rewrite Nat.add_1_r. reflexivity.
      - rewrite IX in ST. apply Nat.leb_gt in ST. replace (S (k - 1)) with k in * by lia. apply Nat.mod_small. lia. }
    split; [lia|]. split; [congruence|]. split; [congruence|].
    replace (S k - 1)%nat with k by lia.
    split; [rewrite U1; exact NX|]. split.
    + rewrite U2. f_equal. unfold st_of. rewrite NX, S1. reflexivity.
    + split.
      * cbn [T]. rewrite <- Tt. f_equal. unfold dur_of. rewrite NX, S1. reflexivity.
      * intro Hc. unfold stops in ST. rewrite S2, S1 in ST. fold n c in ST. rewrite Hc in ST. cbn in ST.
        rewrite IX in ST. unfold sidx in ST. rewrite Hc in ST. apply Nat.leb_gt in ST. lia.
Qed.

(** a cyclic timetable repeats with period equal to its total duration *)
Definition total (sched : list (Z * Z)) : Z := fold_right (fun e acc => fst e + acc) 0 sched.

Lemma T_cyclic_period sched t0 : (0 < length sched)%nat ->
  forall k, T sched true t0 (k + length sched) = T sched true t0 k + total sched.
Proof.
  intros Hn.
  (* sum over one full period starting anywhere equals the total: prove via T (k+n) - T k invariant in k *)
  assert (Step : forall k, T sched true t0 (S k + length sched) - T sched true t0 (S k) =
                           T sched true t0 (k + length sched) - T sched true t0 k).
  { intro k. cbn [T Nat.add]. unfold sidx.
    replace ((k + length sched) mod length sched)%nat with (k mod length sched)%nat; [lia|].
    rewrite <- (Nat.add_mod_idemp_r k (length sched)) by lia. rewrite Nat.mod_same by lia. rewrite Nat.add_0_r. reflexivity. }
  assert (Base : T sched true t0 (length sched) = t0 + total sched).
  { assert (G : forall m, (m <= length sched)%nat ->
                 T sched true t0 m = t0 + fold_right (fun e acc => fst e + acc) 0 (firstn m sched)).
    { induction m as [|m IHm]; intro L; [cbn; lia|]. cbn [T]. rewrite IHm by lia. unfold sidx. rewrite Nat.mod_small by lia.
      assert (F : firstn (S m) sched = firstn m sched ++ [nth m sched (0, 0)]).
      { clear - L. revert m L. induction sched as [|x l IH]; intros m L; cbn in L; [lia|].
        destruct m; cbn; [reflexivity|]. f_equal. apply IH. lia. }
      rewrite F, fold_right_app. cbn.
      generalize (firstn m sched). intro l. induction l as [|y l IHl]; cbn; lia. }
    rewrite G by lia. rewrite firstn_all. reflexivity. }
  intro k. induction k as [|k IH]; [cbn [Nat.add T]; rewrite Base; reflexivity|].
  pose proof (Step k). lia.
Qed.
