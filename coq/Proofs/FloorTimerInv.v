(** C06, queue level: in every state reached without a Python exception (also inside a run) a handler, processor or sink has
    exactly one uncancelled FINISH_PROCESSING event of its own (pending, or paused while it is shut down) when a part is in
    process, and none otherwise: no part is left without its timer, no stale timer survives a failure, no part is finished
    twice. *)
From Coq Require Import ZArith List Bool Lia Sorting.Sorted Sorting.Permutation.
From RecordUpdate Require Import RecordUpdate.
From SimVerif Require Import Model.Base Model.Env Model.FamEnv Model.RM Model.Maint Model.FloorTypes Model.Floor Model.FamFloor.
From SimVerif Require Import Proofs.RMInv Proofs.EnvInv Proofs.EnvPause Proofs.FloorSteps Proofs.FloorInv Proofs.FloorRes Proofs.FloorLink Proofs.FloorReach Proofs.FloorIdle Proofs.FloorTimer.
Import ListNotations.
Open Scope Z_scope.

Definition isfin (d : Z) (e : fevent) : bool :=
  (e_asset e =? d) && negb (e_cancelled e) && match e_act e with Some (AFinishCycle d') => d' =? d | _ => false end.
Definition cntl (d : Z) (l : list fevent) : Z := Z.of_nat (length (filter (isfin d) l)).
Definition cnt (d : Z) (en : fenv) : Z := cntl d (queue en) + cntl d (paused en).

Definition evok (e : fevent) : Prop := forall d, e_act e = Some (AFinishCycle d) -> e_asset e = d.
Definition EvOK (en : fenv) : Prop := Forall evok (queue en) /\ Forall evok (paused en).

(** * counting *)
Lemma cntl_nonneg d l : 0 <= cntl d l.
Proof. unfold cntl. lia. Qed.
Lemma cntl_app d a b : cntl d (a ++ b) = cntl d a + cntl d b.
Proof. unfold cntl. rewrite filter_app, app_length. lia. Qed.
Lemma cntl_cons d e l : cntl d (e :: l) = (if isfin d e then 1 else 0) + cntl d l.
Proof. unfold cntl. cbn. destruct (isfin d e); cbn [length]; lia. Qed.
Lemma cntl_perm d l l' : Permutation l l' -> cntl d l = cntl d l'.
Proof. induction 1; rewrite ?cntl_cons in *; lia. Qed.
Lemma cntl_insort d e l : cntl d (insort e l) = (if isfin d e then 1 else 0) + cntl d l.
Proof. rewrite (cntl_perm d _ _ (insort_perm fact e l)). apply cntl_cons. Qed.
Lemma cntl_split d (m : fevent -> bool) l : cntl d (filter m l) + cntl d (filter (fun e => negb (m e)) l) = cntl d l.
Proof. induction l as [|e l IH]; cbn; [reflexivity|]. destruct (m e); cbn; rewrite !cntl_cons; lia. Qed.
Lemma cntl_map d (g : fevent -> fevent) l : (forall e, isfin d (g e) = isfin d e) -> cntl d (map g l) = cntl d l.
Proof. intro H. induction l as [|e l IH]; cbn; [reflexivity|]. rewrite !cntl_cons, H, IH. reflexivity. Qed.

Lemma cnt_pause d en a : cnt d (pause en a) = cnt d en.
Proof.
  unfold cnt, pause. cbn. rewrite cntl_app. rewrite (cntl_map d (stamp (now en))) by (intro e; reflexivity).
  pose proof (cntl_split d (matches a) (queue en)). lia.
Qed.

Lemma cnt_unpause d en a : cnt d (unpause en a) = cnt d en.
Proof.
  unfold cnt, unpause. cbn.
  rewrite (cntl_perm d _ _ (fold_insort_perm fact (resumed (now en)) (filter (matches a) (paused en)) (queue en))).
  rewrite cntl_app. rewrite (cntl_map d (resumed (now en))) by (intro e; reflexivity).
  pose proof (cntl_split d (matches a) (paused en)). lia.
Qed.

Lemma cntl_cancel d a l :
  cntl d (map (fun e : fevent => if matches a e then cancel_ev e else e) l) = if d =? a then 0 else cntl d l.
Proof.
  induction l as [|e l IH]; cbn [map]; [destruct (d =? a); reflexivity|]. rewrite !cntl_cons, IH.
  unfold matches. destruct (Z.eqb_spec d a) as [->|N].
  - destruct (Z.eqb_spec (e_asset e) a) as [E|NE]; [unfold isfin, cancel_ev; cbn; rewrite andb_false_r; reflexivity|].
    unfold isfin. apply Z.eqb_neq in NE. rewrite NE. reflexivity.
  - destruct (Z.eqb_spec (e_asset e) a) as [E|NE]; [|reflexivity].
    unfold isfin, cancel_ev. cbn. assert (X : (e_asset e =? d) = false) by (apply Z.eqb_neq; congruence). rewrite X. reflexivity.
Qed.

Lemma cnt_cancel d en a : cnt d (cancel en a) = if d =? a then 0 else cnt d en.
Proof. unfold cnt, cancel. cbn. rewrite !cntl_cancel. destruct (d =? a); reflexivity. Qed.

(** * events whose action is the end of d's cycle belong to d *)
Lemma evok_stamp t e : evok e -> evok (stamp t e).
Proof. intros H d. apply H. Qed.
Lemma evok_resumed t e : evok e -> evok (resumed t e).
Proof. intros H d. apply H. Qed.
Lemma Forall_filter' {X} (P : X -> Prop) f l : Forall P l -> Forall P (filter f l).
Proof. intro H. apply Forall_forall. intros x Hx. apply filter_In in Hx. rewrite Forall_forall in H. apply H, Hx. Qed.
Lemma Forall_map' {X} (P : X -> Prop) (g : X -> X) l : (forall x, P x -> P (g x)) -> Forall P l -> Forall P (map g l).
Proof. intros G H. induction H; cbn; constructor; auto. Qed.

Lemma EvOK_pause en a : EvOK en -> EvOK (pause en a).
Proof.
  intros [Q Pd]. split; cbn; [apply Forall_filter', Q|]. apply Forall_app. split; [exact Pd|].
  apply Forall_map'; [apply evok_stamp|apply Forall_filter', Q].
Qed.
Lemma EvOK_unpause en a : EvOK en -> EvOK (unpause en a).
Proof.
  intros [Q Pd]. split; cbn; [|apply Forall_filter', Pd].
  apply (Forall_perm fact evok _ _ (Permutation_sym (fold_insort_perm fact (resumed (now en)) (filter (matches a) (paused en)) (queue en)))).
  apply Forall_app. split; [exact Q|]. apply Forall_map'; [apply evok_resumed|apply Forall_filter', Pd].
Qed.
Lemma EvOK_cancel en a : EvOK en -> EvOK (cancel en a).
Proof.
  intros [Q Pd]. split; cbn; (apply Forall_map'; [|assumption]); intros e H d; destruct (matches a e); apply H.
Qed.

Section TimerInv.
Variable ws : nat -> Z.
Notation venv := (venv ws).

Lemma sched_effect en t p a act en' :
  apply_cmd ws en (CSched t p a act) = Ok en' ->
  (forall d, cnt d en' = cnt d en + (if (a =? d) && match act with AFinishCycle d' => d' =? d | _ => false end then 1 else 0)) /\
  ((forall d, act = AFinishCycle d -> a = d) -> EvOK en -> EvOK en').
Proof.
  cbn. unfold schedule. destruct (t <? now en); [discriminate|]. intro H. injection H as <-. split.
  - intro d. unfold cnt. cbn. rewrite cntl_insort. unfold isfin at 1. cbn. rewrite andb_true_r. lia.
  - intros AOK [Q Pd]. split; cbn; [|exact Pd].
    apply (Forall_perm fact evok _ _ (Permutation_sym (insort_perm fact _ (queue en)))). constructor; [|exact Q].
    intros d E. cbn in *. injection E as E. apply AOK, E.
Qed.

Lemma tquiet_effect en c en' : tquiet c -> apply_cmd ws en (to_cmd_f c) = Ok en' -> (forall d, cnt d en' = cnt d en) /\ (EvOK en -> EvOK en').
Proof.
  intros Q H. destruct c as [t p a act|lb sb pl|a|a|a]; try contradiction; cbn [to_cmd_f] in H.
  - destruct (sched_effect en t p a act en' H) as [C E]. split.
    + intro d. rewrite C. destruct act; try (rewrite andb_false_r; lia). contradiction.
    + apply E. intros d X. subst act. contradiction.
  - cbn in H. injection H as <-. split; [reflexivity|auto].
Qed.

Lemma tquiets_effect l : Forall tquiet l -> forall en en', apply_cmds ws en (map to_cmd_f l) = Ok en' -> (forall d, cnt d en' = cnt d en) /\ (EvOK en -> EvOK en').
Proof.
  induction 1 as [|c l Q _ IH]; intros en en' H; cbn in H; [injection H as <-; split; auto|].
  destruct (apply_cmd ws en (to_cmd_f c)) as [en1|en1] eqn:E; [|discriminate].
  destruct (IH en1 en' H) as [C1 E1]. destruct (tquiet_effect en c en1 Q E) as [C0 E0]. split; [intro d; rewrite C1; apply C0|auto].
Qed.

(** * the link *)
Definition T (skip : Z -> Prop) (w : fw) (en : fenv) : Prop :=
  EvOK en /\ forall d, ~ skip d -> tracked (d_kind (getd w d)) = true -> cnt d en = bexp (getd w d).
Definition LT (skip : Z -> Prop) (en0 : fenv) (w : fw) : Prop :=
  okf w = true -> forall en, venv en0 w = Ok en -> T skip w en.

Lemma LT_weaken (skip skip' : Z -> Prop) en0 w : (forall d, skip d -> skip' d) -> LT skip en0 w -> LT skip' en0 w.
Proof. intros M L OKF en V. destruct (L OKF en V) as [E H]. split; [exact E|]. intros d NS. apply H. intro X. apply NS, M, X. Qed.

Lemma LT_split (skip : Z -> Prop) d0 en0 w :
  LT (fun d => skip d \/ d = d0) en0 w ->
  (okf w = true -> forall en, venv en0 w = Ok en -> ~ skip d0 -> tracked (d_kind (getd w d0)) = true -> cnt d0 en = bexp (getd w d0)) ->
  LT skip en0 w.
Proof.
  intros L1 L2 OKF en V. destruct (L1 OKF en V) as [E H]. split; [exact E|]. intros d NS TK. destruct (Z.eq_dec d d0) as [->|N].
  - apply (L2 OKF en V); assumption.
  - apply H; [intros [X|X]; [exact (NS X)|exact (N X)]|exact TK].
Qed.

Lemma LT_dead skip en0 w : okf w = false -> LT skip en0 w.
Proof. intros D OKF. congruence. Qed.

Lemma T_updd skip w d f en :
  (forall x, d_kind (f x) = d_kind x) ->
  (amem d (f_devs w) = true -> ~ skip d -> tracked (d_kind (getd w d)) = true -> bexp (f (getd w d)) = bexp (getd w d)) ->
  T skip w en -> T skip (updd w d f) en.
Proof.
  intros K B [E H]. split; [exact E|]. intros d' NS TK. rewrite getd_updd in *. destruct (Z.eqb_spec d' d) as [->|N]; cbn [andb] in *; [|apply H; assumption].
  destruct (amem d (f_devs w)) eqn:M; [|apply H; assumption]. rewrite K in TK. rewrite B by auto. apply H; assumption.
Qed.

Lemma LT_updd_skip (skip : Z -> Prop) en0 w d f : (forall x, d_kind (f x) = d_kind x) -> skip d -> LT skip en0 w -> LT skip en0 (updd w d f).
Proof.
  intros K SK L OKF en V. rewrite okf_updd in OKF. rewrite (venv_same ws en0 w (updd w d f) eq_refl) in V.
  apply T_updd; [exact K| |apply (L OKF en V)]. intros _ NS. contradiction.
Qed.

Lemma LT_updd_safe st (skip : Z -> Prop) en0 w d g f : tsafe st g f -> g (getd w d) -> LT skip en0 w -> LT skip en0 (updd w d f).
Proof.
  intros TS G L OKF en V. rewrite okf_updd in OKF. rewrite (venv_same ws en0 w (updd w d f) eq_refl) in V.
  specialize (L OKF en V). destruct L as [E H]. split; [exact E|]. intros d' NS TK.
  rewrite getd_updd in *. destruct (Z.eqb_spec d' d) as [->|N]; cbn [andb] in *; [|apply H; assumption].
  destruct (amem d (f_devs w)) eqn:M; [|apply H; assumption].
  destruct (TS (getd w d) G) as [K [B _]]. rewrite K in TK. unfold bexp. rewrite (B TK). apply H; assumption.
Qed.

Lemma T_env skip w en en' : (EvOK en -> EvOK en') -> (forall d, cnt d en' = cnt d en) -> T skip w en -> T skip w en'.
Proof. intros E C [E0 H]. split; [auto|]. intros d NS TK. rewrite C. apply H; assumption. Qed.
Lemma T_same_devs skip w w' en : f_devs w' = f_devs w -> T skip w en -> T skip w' en.
Proof. intros D [E H]. split; [exact E|]. intros d NS TK. rewrite (getd_other_fields w w' d D) in *. apply H; assumption. Qed.

Lemma LT_quiet (skip : Z -> Prop) en0 w w' :
  f_devs w' = f_devs w -> (exists l, f_out w' = l ++ f_out w /\ Forall tquiet l) -> (okf w' = true -> okf w = true) ->
  LT skip en0 w -> LT skip en0 w'.
Proof.
  intros D [l [O Q]] OK L OKF en' V. rewrite (venv_app ws en0 w w' l O) in V. destruct (venv en0 w) as [en|en] eqn:V0; [|discriminate].
  specialize (L (OK OKF) en V0). apply (T_same_devs skip w); [exact D|].
  destruct (tquiets_effect (rev l) (Forall_rev Q) en en' V) as [C E]. eapply T_env; eauto.
Qed.

Definition temit_ok' (skip : Z -> Prop) (w : fw) (c : fcmd) : Prop :=
  match c with
  | FSched _ _ a (AFinishCycle d) => a = d /\ (skip d \/ tracked (d_kind (getd w d)) = false)
  | FCancel a => skip a \/ (tracked (d_kind (getd w a)) = true -> busy (getd w a) = false)
  | _ => True
  end.

Lemma LT_emit (skip : Z -> Prop) en0 w c : temit_ok' skip w c -> LT skip en0 w -> LT skip en0 (emitf w c).
Proof.
  intros EO L OKF en' V. rewrite okf_emitf in OKF. destruct (venv_emit ws en0 w c en' V) as [en [V0 AC]].
  specialize (L OKF en V0). apply (T_same_devs skip w); [reflexivity|].
  destruct c as [t p a act|lb sb pl|a|a|a]; cbn [to_cmd_f] in AC.
  - destruct (sched_effect en t p a act en' AC) as [C E]. destruct L as [E0 H]. split.
    + apply E; [|exact E0]. intros d X. subst act. cbn in EO. apply EO.
    + intros d NS TK. rewrite C. rewrite H by assumption.
      destruct act as [d0|d0|d0|d0| |m ma|k]; try (rewrite andb_false_r; lia).
      cbn in EO. destruct EO as [-> EO]. destruct (Z.eqb_spec d0 d) as [->|N]; cbn; [|lia].
      destruct EO as [EO|EO]; [contradiction|congruence].
  - destruct (tquiet_effect en (FData lb sb pl) en' I AC) as [C E]. eapply T_env; eauto.
  - cbn in AC. injection AC as <-. eapply T_env; [apply EvOK_pause|intro d; apply cnt_pause|exact L].
  - cbn in AC. injection AC as <-. eapply T_env; [apply EvOK_unpause|intro d; apply cnt_unpause|exact L].
  - cbn in AC. injection AC as <-. destruct L as [E0 H]. split; [apply EvOK_cancel, E0|].
    intros d NS TK. rewrite cnt_cancel. destruct (Z.eqb_spec d a) as [->|N]; [|apply H; assumption].
    cbn in EO. destruct EO as [EO|EO]; [contradiction|]. unfold bexp. rewrite (EO TK). reflexivity.
Qed.

(** * local blocks *)
Lemma LOC_effect en0 d n w w' : LOC d n w w' -> okf w' = true -> forall en', venv en0 w' = Ok en' ->
  exists en, venv en0 w = Ok en /\ okf w = true /\ (EvOK en -> EvOK en') /\
             (forall d', cnt d' en' = cnt d' en + (if d' =? d then Z.of_nat n else 0)) /\
             (forall d', d' <> d -> getd w' d' = getd w d') /\ d_kind (getd w' d) = d_kind (getd w d).
Proof.
  induction 1 as [w|n m w1 w2 w3 S _ IH]; intros OKF en' V.
  - exists en'. split; [exact V|]. split; [exact OKF|]. split; [auto|]. split; [intro d'; destruct (d' =? d); cbn; lia|]. split; [auto|reflexivity].
  - destruct (IH OKF en' V) as [en2 [V2 [OK2 [E2 [C2 [G2 K2]]]]]].
    destruct S as [w f KF|w w' DV [l [O Q]] OK|w t p].
    + exists en2. rewrite (venv_same ws en0 w (updd w d f) eq_refl) in V2. rewrite okf_updd in OK2.
      split; [exact V2|]. split; [exact OK2|]. split; [exact E2|]. split; [|split].
      * intro d'. rewrite C2. cbn [Nat.add]. reflexivity.
      * intros d' N. rewrite (G2 d' N). rewrite getd_updd. apply Z.eqb_neq in N. rewrite N. reflexivity.
      * rewrite K2. apply getd_updd_field, KF.
    + rewrite (venv_app ws en0 w w' l O) in V2. destruct (FloorIdle.venv ws en0 w) as [en1|en1] eqn:V1; [|discriminate].
      destruct (tquiets_effect (rev l) (Forall_rev Q) en1 en2 V2) as [C1 E1].
      exists en1. split; [reflexivity|]. split; [exact (OK OK2)|]. split; [auto|]. split; [|split].
      * intro d'. rewrite C2, C1. cbn [Nat.add]. reflexivity.
      * intros d' N. rewrite (G2 d' N). apply getd_other_fields, DV.
      * rewrite K2. rewrite (getd_other_fields w w' d DV). reflexivity.
    + destruct (venv_emit ws en0 w _ en2 V2) as [en1 [V1 AC]]. cbn [to_cmd_f] in AC.
      destruct (sched_effect en1 t p d (AFinishCycle d) en2 AC) as [C1 E1].
      exists en1. rewrite okf_emitf in OK2. split; [exact V1|]. split; [exact OK2|]. split; [|split; [|split]].
      * intro X. apply E2, E1; [|exact X]. intros d0 Y. injection Y as <-. reflexivity.
      * intro d'. rewrite C2, C1. rewrite (Z.eqb_sym d d'). destruct (d' =? d); cbn [andb]; lia.
      * intros d' N. rewrite (G2 d' N). reflexivity.
      * rewrite K2. reflexivity.
Qed.

(** * every step preserves the link *)
Theorem jstep_LT st nw skip en0 w w' : jstep st nw w w' -> LT skip en0 w -> LT skip en0 w'.
Proof.
  intros S L. destruct S as [w d g f TS G|w c EO|w w' D O OK|w w' DEAD|w pid f|w w' d n HL BAL _|w w1 d HL BZ _].
  - eapply LT_updd_safe; eauto.
  - apply LT_emit; [|exact L]. destruct c as [t p a act|lb sb pl|a|a|a]; cbn in *; auto. destruct act; auto. destruct EO; auto.
  - eapply LT_quiet; eauto.
  - apply LT_dead, DEAD.
  - intros OKF en V. specialize (L OKF en V). destruct L as [E H]. split; [exact E|]. intros d NS TK.
    assert (X : d_kind (getd (upd_part_everywhere pid f w) d) = d_kind (getd w d) /\ busy (getd (upd_part_everywhere pid f w) d) = busy (getd w d)).
    { unfold upd_part_everywhere, getd. cbn. induction (f_devs w) as [|[k y] l0 IHl]; cbn; [auto|].
      destruct (d =? k); [|exact IHl]. cbn. split; [reflexivity|]. unfold busy. cbn. destruct (d_part y); reflexivity. }
    destruct X as [X1 X2]. rewrite X1 in TK. unfold bexp. rewrite X2. apply H; assumption.
  - (* a local block with n FINISH events of d *)
    intros OKF en' V. destruct (LOC_effect en0 d n w w' HL OKF en' V) as [en [V0 [OK0 [E [C [G K]]]]]].
    destruct (L OK0 en V0) as [E0 H]. split; [auto|]. intros d' NS TK. rewrite C. destruct (Z.eqb_spec d' d) as [->|N].
    + rewrite K in TK. rewrite (H d NS TK). rewrite (BAL TK). lia.
    + rewrite (G d' N) in *. rewrite (H d' NS TK). lia.
  - (* a local block without FINISH events, then the cancel of d's events *)
    intros OKF en' V. rewrite okf_emitf in OKF. destruct (venv_emit ws en0 w1 _ en' V) as [en1 [V1 AC]]. cbn in AC. injection AC as <-.
    destruct (LOC_effect en0 d 0 w w1 HL OKF en1 V1) as [en [V0 [OK0 [E [C [G K]]]]]].
    destruct (L OK0 en V0) as [E0 H]. split; [apply EvOK_cancel; auto|]. intros d' NS TK.
    change (getd (emitf w1 ?c) d') with (getd w1 d') in *. rewrite cnt_cancel. destruct (Z.eqb_spec d' d) as [->|N].
    + rewrite K in TK. unfold bexp. rewrite (BZ TK). reflexivity.
    + rewrite C. apply Z.eqb_neq in N. rewrite N. rewrite (G d' ltac:(apply Z.eqb_neq; exact N)) in *. rewrite (H d' NS TK). lia.
Qed.

Theorem RJ_LT st nw skip en0 w w' : RJ st nw w w' -> LT skip en0 w -> LT skip en0 w'.
Proof. intro H. induction H as [|w1 w2 w3 S _ IH]; intro L; [exact L|]. apply IH. eapply jstep_LT; eauto. Qed.

(** * the end of a cycle puts its own device right: its timer has just been taken off the queue *)
Lemma okf_failf_nonzero w e : e <> 0 -> okf (failf w e) = false.
Proof. intro N. unfold failf, okf. destruct (f_err w =? 0) eqn:E; [cbn; apply Z.eqb_neq, N|exact E]. Qed.

Theorem finish_fix nw (skip : Z -> Prop) en0 fuel w d :
  tracked (d_kind (getd w d)) = true -> LT (fun d' => skip d' \/ d' = d) en0 w ->
  (okf w = true -> forall en, venv en0 w = Ok en -> cnt d en = 0) ->
  LT skip en0 (finish_cycle fuel nw w d).
Proof.
  intros TK L C0.
  destruct (operational (getd w d)) eqn:OP; [|apply LT_dead; unfold finish_cycle; rewrite OP; destruct (d_kind (getd w d)); try discriminate; apply okf_failf_nonzero; discriminate].
  destruct (d_part (getd w d)) as [it|] eqn:P; [|apply LT_dead; unfold finish_cycle; rewrite OP, P; destruct (d_kind (getd w d)); try discriminate; apply okf_failf_nonzero; discriminate].
  destruct (d_out (getd w d)) eqn:O; [apply LT_dead; unfold finish_cycle; rewrite OP, P, O; destruct (d_kind (getd w d)); try discriminate; apply okf_failf_nonzero; discriminate|].
  eapply RJ_LT; [apply (RJ_finish_tail false nw fuel w d it TK OP P O)|].
  apply (LT_split skip d).
  - apply LT_updd_skip; [intro y; unfold tfin; destruct (d_kind (getd w d)); reflexivity|right; reflexivity|exact L].
  - intros OKF en V _ _. rewrite okf_updd in OKF. rewrite (venv_same ws en0 w (updd w d (tfin nw (d_kind (getd w d)) it)) eq_refl) in V. rewrite (C0 OKF en V).
    rewrite getd_updd_same, (tracked_amem w d TK). unfold tfin, bexp, busy. destruct (d_kind (getd w d)); reflexivity.
Qed.

(** * the system *)
Lemma LT_start skip en w : f_out w = [] -> T skip w en -> LT skip en w.
Proof. intros O H _ en' V. unfold FloorIdle.venv in V. rewrite O in V. cbn in V. injection V as <-. exact H. Qed.

Lemma fact_finish_dec (a : fact) : {d | a = AFinishCycle d} + {forall d, a <> AFinishCycle d}.
Proof. destruct a as [x|x|x|x| |m ma|k]; try (right; intros d; discriminate). left. exists x. reflexivity. Qed.

Definition TS (s : fw * fenv) : Prop := f_out (fst s) = [] /\ T (fun _ => False) (fst s) (snd s).

Theorem step_TS sc s s' : TS s -> step ws (exec_fl sc) fl_wfail s = Some (Ok s') -> TS s'.
Proof.
  destruct s as [w en]. intros [O [E H]] ST. cbn [fst snd] in *. unfold step in ST.
  destruct (queue en) as [|e q] eqn:Q; [discriminate|].
  set (en1 := mkEnv (e_time e) q (paused en) (next_eid en) (terminated en) (e :: dispatched en) (datalog en)) in *.
  assert (C1 : forall d, cnt d en1 = cnt d en - (if isfin d e then 1 else 0)).
  { intro d. unfold cnt, en1. cbn. rewrite Q, cntl_cons. lia. }
  assert (E1 : EvOK en1).
  { destruct E as [EQ EP]. split; cbn; [|exact EP]. rewrite Q in EQ. inversion EQ; assumption. }
  assert (EE : evok e) by (destruct E as [EQ _]; rewrite Q in EQ; inversion EQ; assumption).
  destruct (e_cancelled e) eqn:CE.
  - injection ST as <-. split; [exact O|]. split; [exact E1|]. intros d NS TK. rewrite C1. unfold isfin. rewrite CE. cbn. rewrite andb_false_r. cbn.
    rewrite (H d NS TK). lia.
  - destruct (e_act e) as [a|] eqn:AE.
    + unfold exec_fl in ST.
      set (w1 := exec_fact (fl_fuel w) (fun k => nth k (fq_uops sc) []) a w (e_time e)) in *.
      destruct (flush_f w1) as [w2 cs] eqn:FL.
      destruct (apply_cmds ws en1 cs) as [en2|en2] eqn:AC; [|discriminate].
      destruct (fl_wfail w2) eqn:WF; [discriminate|]. injection ST as <-. cbn [fst snd].
      assert (E2 : w2 = fst (flush_f w1) /\ cs = snd (flush_f w1)) by (rewrite FL; auto). destruct E2 as [-> ->].
      split; [reflexivity|].
      assert (OKF : okf w1 = true) by (unfold fl_wfail in WF; apply negb_false_iff in WF; exact WF).
      apply (T_same_devs _ w1); [reflexivity|].
      assert (LTF : LT (fun _ => False) en1 w1); [|apply (LTF OKF en2 AC)].
      destruct (fact_finish_dec a) as [[d0 ->]|NF].
      * (* the end of d0's cycle *)
        assert (A0 : e_asset e = d0) by (apply EE; exact AE).
        assert (F0 : isfin d0 e = true) by (unfold isfin; rewrite A0, CE, AE, Z.eqb_refl; reflexivity).
        assert (OTH : forall d, d <> d0 -> isfin d e = false).
        { intros d N. unfold isfin. rewrite A0. assert (X : (d0 =? d) = false) by (apply Z.eqb_neq; congruence). rewrite X. reflexivity. }
        destruct (tracked (d_kind (getd w d0))) eqn:TK0.
        -- unfold w1. cbn [exec_fact]. apply finish_fix; [exact TK0| |].
           ++ apply LT_start; [exact O|]. split; [exact E1|]. intros d NS TK. rewrite C1, OTH; [rewrite (H d (fun X => X) TK); lia|].
              intro X. apply NS. right. exact X.
           ++ intros _ en' V. unfold FloorIdle.venv in V. rewrite O in V. cbn in V. injection V as <-.
              rewrite C1, F0. pose proof (H d0 (fun X => X) TK0) as HH. pose proof (cntl_nonneg d0 q). pose proof (cntl_nonneg d0 (paused en)).
              unfold cnt in HH. rewrite Q, cntl_cons, F0 in HH. unfold bexp in *. unfold cnt. rewrite Q, cntl_cons, F0. destruct (busy (getd w d0)); lia.
        -- apply (RJ_LT false (e_time e) _ en1 w w1); [apply RJ_exec_fact; intros d X; injection X as <-; exact TK0|].
           apply LT_start; [exact O|]. split; [exact E1|]. intros d NS TK. rewrite C1, OTH; [rewrite (H d NS TK); lia|]. congruence.
      * apply (RJ_LT false (e_time e) _ en1 w w1); [apply RJ_exec_fact; intros d X; exfalso; exact (NF d X)|].
        apply LT_start; [exact O|]. split; [exact E1|]. intros d NS TK. rewrite C1.
        assert (X : isfin d e = false) by (unfold isfin; rewrite AE; destruct a; try (apply andb_false_r); exfalso; eapply NF; reflexivity).
        rewrite X. rewrite (H d NS TK). lia.
    + injection ST as <-. split; [exact O|]. split; [exact E1|]. cbn [fst snd]. intros d NS TK.
      change (cnt d (set_terminated en1 true)) with (cnt d en1). rewrite C1. unfold isfin. rewrite AE. rewrite andb_false_r. rewrite (H d NS TK). lia.
Qed.

Lemma TS_fin st (w0 : fw) (en : fenv) (w : fw) s' :
  f_out w0 = [] -> T (fun _ => False) w0 en -> RJ st (now en) w0 w ->
  (let '(w1, cs) := flush_f w in
   match apply_cmds ws en cs with
   | Ok en' => ((clear_ferr w1, en'), f_err w1)
   | Err en' => ((clear_ferr w1, en'), if f_err w1 =? 0 then 1 else f_err w1)
   end) = (s', 0) -> TS s'.
Proof.
  intros O H HR. destruct (flush_f w) as [w1 cs] eqn:FL.
  assert (E2 : w1 = fst (flush_f w) /\ cs = snd (flush_f w)) by (rewrite FL; auto). destruct E2 as [-> ->].
  destruct (apply_cmds ws en (snd (flush_f w))) as [en'|en'] eqn:AC.
  - intro E. injection E as <- E0. cbn [fst snd]. split; [reflexivity|].
    apply (T_same_devs _ w); [reflexivity|].
    apply (RJ_LT st (now en) _ en w0 w HR (LT_start _ en w0 O H)); [|exact AC].
    unfold okf. cbn in E0. rewrite E0. reflexivity.
  - intro E. injection E as _ E0. st0 E0.
Qed.

End TimerInv.

Section TimerReach.
Variable sc : fl_scn.
Notation wsd := (wgen (fq_seed sc) (fq_mod sc)).

Lemma pristine_idle w : wf_worldb w = true -> forall d, bexp (getd w d) = 0.
Proof.
  unfold wf_worldb. intro H. apply andb_true_iff in H. destruct H as [H _]. apply andb_true_iff in H. destruct H as [H _]. apply andb_true_iff in H. destruct H as [PR _].
  rewrite forallb_forall in PR. intro d. unfold bexp, busy, getd. destruct (aget d (f_devs w)) as [x|] eqn:Hx; [|reflexivity].
  apply aget_In in Hx. specialize (PR _ Hx). destruct (pristine_facts _ PR) as [P _]. cbn [snd] in P. rewrite P. reflexivity.
Qed.

Theorem reach_in_TS s : f_out (fq_world sc) = [] -> reach_in sc s -> TS s.
Proof.
  intro O0. induction 1 as [s WF E|s o s' _ IH E|s t k p s' _ IH E|s s' _ IH E|s d en' _ IH E|s d ups s' _ IH E].
  - unfold do_fxop in E. cbn [fst snd] in E.
    apply (TS_fin wsd false (fq_world sc) init_env (init_world (fl_fuel (fq_world sc)) (now (init_env (A:=fact))) (fq_world sc)) s O0); [|apply RJ_init_world; reflexivity|exact E].
    split; [split; constructor|]. intros d _ _. rewrite (pristine_idle _ WF). reflexivity.
  - destruct IH as [O H]. unfold do_fxop in E.
    apply (TS_fin wsd false (fst s) (snd s) (run_uop (fl_fuel (fst s)) (now (snd s)) (fst s) o) s' O H); [apply RJ_run_uop|exact E].
  - destruct IH as [O H]. unfold do_fxop in E.
    destruct (apply_cmd wsd (snd s) (CSched t p (-5) (AUser k))) as [en'|en'] eqn:AC; [|discriminate].
    injection E as <-. cbn [fst snd]. split; [exact O|].
    destruct (tquiet_effect wsd (snd s) (FSched t p (-5) (AUser k)) en' Logic.I AC) as [C EE]. eapply T_env; eauto.
  - eapply step_TS; eauto.
  - destruct IH as [O [EE H]]. cbn [fst snd]. split; [exact O|].
    unfold start_run, schedule in E. cbn in E. destruct (now (snd s) + d <? now (snd s)); [discriminate|]. injection E as <-.
    split.
    + destruct EE as [EQ EP]. split; cbn; [|exact EP].
      apply (Forall_perm fact evok _ _ (Permutation_sym (insort_perm fact _ (queue (snd s))))). constructor; [|exact EQ]. intros d0 X. discriminate.
    + intros d' NS TK. unfold cnt. cbn. rewrite cntl_insort. unfold isfin at 1. cbn. rewrite andb_false_r. rewrite <- (H d' NS TK). unfold cnt. lia.
  - destruct IH as [O H]. unfold do_fxop in E.
    apply (TS_fin wsd false (fst s) (snd s) (late_create (fl_fuel (fst s)) (now (snd s)) (fst s) d ups) s' O H); [apply RJ_late_create|exact E].
Qed.

(** * C06: one live timer per part in process *)
Theorem one_timer_per_part s d :
  f_out (fq_world sc) = [] -> reach_in sc s -> tracked (d_kind (getd (fst s) d)) = true ->
  cnt d (snd s) = if busy (getd (fst s) d) then 1 else 0.
Proof. intros O HR TK. destruct (reach_in_TS s O HR) as [_ [_ H]]. apply H; [intro X; exact X|exact TK]. Qed.

End TimerReach.
