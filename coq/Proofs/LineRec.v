(** Properties of the reference recurrence (Model/Line.v): it is the least table satisfying the
    service, order and blocking constraints; departures are monotone in the part number and along the line. *)
From Coq Require Import ZArith List Bool Lia.
From SimVerif Require Import Model.Line.
Import ListNotations.
Open Scope Z_scope.

Lemma row_aux_length sts : forall j A hist, length (row_aux sts j A hist) = length sts.
Proof. induction sts as [|s sts IH]; intros; cbn; [reflexivity|]. rewrite IH. reflexivity. Qed.

Lemma next_row_length sts hist : length (next_row sts hist) = length sts.
Proof. apply row_aux_length. Qed.

Lemma table_length sts n : length (table sts n) = n.
Proof. induction n as [|n IH]; cbn; [reflexivity|]. rewrite IH. reflexivity. Qed.

(** the entry of station [j0 + i] in a row started at station [j0] with arrival time [A] *)
Lemma row_aux_spec sts : forall j0 A hist i s,
  nth_error sts i = Some s ->
  let row := row_aux sts j0 A hist in
  let Ai := match i with O => A | S i' => nth i' row 0 end in
  nth i row 0 = Z.max (Z.max (Ai + st_c s) (get hist (j0 + i) 1)) (block_time (skipn (S i) sts) (j0 + i) hist).
Proof.
  induction sts as [|s0 sts IH]; intros j0 A hist i s H; [destruct i; discriminate|].
  destruct i as [|i].
  - cbn in H. injection H as <-. cbn. rewrite Nat.add_0_r. reflexivity.
  - cbn in H. cbn [row_aux]. cbv zeta.
    set (d := Z.max (Z.max (A + st_c s0) (get hist j0 1)) (block_time sts j0 hist)).
    specialize (IH (S j0) d hist i s H). cbv zeta in IH. cbn [nth skipn].
    replace (j0 + S i)%nat with (S j0 + i)%nat by lia. rewrite IH.
    destruct i; reflexivity.
Qed.

(** the three constraints, and tightness: a departure equals one of its three lower bounds *)
Theorem row_constraints sts hist i s :
  nth_error sts i = Some s ->
  let row := next_row sts hist in
  let A := match i with O => get hist 0 1 | S i' => nth i' row 0 end in
  let d := nth i row 0 in
  A + st_c s <= d /\ get hist i 1 <= d /\ block_time (skipn (S i) sts) i hist <= d /\
  (d = A + st_c s \/ d = get hist i 1 \/ d = block_time (skipn (S i) sts) i hist).
Proof.
  intro H. cbv zeta. unfold next_row. pose proof (row_aux_spec sts 0 (get hist 0 1) hist i s H) as E. cbv zeta in E. cbn [Nat.add] in E.
  rewrite E. lia.
Qed.

(** departures of one station never decrease from one part to the next *)
Theorem monotone_in_k sts hist i s :
  nth_error sts i = Some s -> get hist i 1 <= nth i (next_row sts hist) 0.
Proof. intro H. exact (proj1 (proj2 (row_constraints sts hist i s H))). Qed.

(** a part leaves station i+1 no earlier than it left station i, when service times are not negative *)
Theorem monotone_along_line sts hist i s :
  nth_error sts (S i) = Some s -> 0 <= st_c s -> nth i (next_row sts hist) 0 <= nth (S i) (next_row sts hist) 0.
Proof. intros H C. pose proof (row_constraints sts hist (S i) s H) as [A _]. cbv zeta in A. lia. Qed.

(** every entry of the table is the corresponding [next_row] *)
Theorem table_unfold sts n : table sts (S n) = next_row sts (table sts n) :: table sts n.
Proof. reflexivity. Qed.

(** no departure before time 0 + service when all service times are non-negative: all entries are >= 0 *)
Theorem row_nonneg sts hist : (forall s, In s sts -> 0 <= st_c s) -> (forall j d, 0 <= get hist j d) ->
  forall i, 0 <= nth i (next_row sts hist) 0.
Proof.
  intros C G i. destruct (nth_error sts i) as [s|] eqn:H.
  - pose proof (monotone_in_k sts hist i s H). pose proof (G i 1%nat). lia.
  - apply nth_error_None in H. rewrite nth_overflow; [lia|]. rewrite next_row_length. exact H.
Qed.
