(** C14: what the evolution of the event system does and does not depend on.
    - only on the tie-break weights it draws (same weights, same evolution);
    - not on the numbering of the assets (any order-preserving renumbering of asset ids commutes with
      sorted insertion, pausing, resuming and cancelling);
    - the marker event of Environment.run changes nothing but the clock and the terminated flag. *)
From Coq Require Import ZArith List Bool Lia.
From SimVerif Require Import Model.Base Model.Env.
Import ListNotations.
Open Scope Z_scope.

Section Repro.
  Variables (A W : Type).
  Variable exec : A -> W -> Z -> W * list (cmd A).
  Variable wfail : W -> bool.

  (** * same weights, same evolution *)
  Section Ext.
    Variables ws ws' : nat -> Z.
    Hypothesis same : forall n, ws n = ws' n.

    Lemma schedule_ext (en : env A) t p a act : schedule ws en t p a act = schedule ws' en t p a act.
    Proof. unfold schedule. rewrite same. reflexivity. Qed.

    Lemma apply_cmd_ext (en : env A) c : apply_cmd ws en c = apply_cmd ws' en c.
    Proof. destruct c; cbn; try reflexivity. apply schedule_ext. Qed.

    Lemma apply_cmds_ext cs : forall en : env A, apply_cmds ws en cs = apply_cmds ws' en cs.
    Proof.
      induction cs as [|c cs IH]; intro en; cbn; [reflexivity|]. rewrite apply_cmd_ext.
      destruct (apply_cmd ws' en c); [apply IH|reflexivity].
    Qed.

    Lemma step_ext s : step ws exec wfail s = step ws' exec wfail s.
    Proof.
      destruct s as [w en]. unfold step. destruct (queue en) as [|e q]; [reflexivity|].
      destruct (e_cancelled e); [reflexivity|]. destruct (e_act e) as [a|]; [|reflexivity].
      destruct (exec a w (e_time e)) as [w' cs]. rewrite apply_cmds_ext. reflexivity.
    Qed.

    Lemma loop_ext fuel : forall s, loop ws exec wfail fuel s = loop ws' exec wfail fuel s.
    Proof.
      induction fuel as [|f IH]; intro s; cbn; [reflexivity|].
      destruct (queue (snd s)); [reflexivity|]. destruct (terminated (snd s)); [reflexivity|].
      rewrite step_ext. destruct (step ws' exec wfail s) as [[s'|s']|]; try reflexivity. apply IH.
    Qed.

    Theorem run_ext fuel d s : run ws exec wfail fuel d s = run ws' exec wfail fuel d s.
    Proof.
      unfold run, start_run. rewrite schedule_ext. destruct (schedule ws' _ _ _ _ _); [apply loop_ext|reflexivity].
    Qed.
  End Ext.

  (** * the marker event of run() *)
  Variable ws : nat -> Z.

  Theorem marker_step w (en : env A) e q :
    queue en = e :: q -> e_cancelled e = false -> e_act e = None ->
    step ws exec wfail (w, en) =
    Some (Ok (w, mkEnv (e_time e) q (paused en) (next_eid en) true (e :: dispatched en) (datalog en))).
  Proof. intros Q C N. unfold step. rewrite Q, C, N. reflexivity. Qed.

  Theorem start_run_spec (en : env A) d en' :
    start_run ws en d = Ok en' ->
    queue en' = insort (mkEvent (next_eid en) (now en + d) P_TERMINATE (ws (next_eid en)) (-1) None None false) (queue en) /\
    now en' = now en /\ paused en' = paused en /\ next_eid en' = S (next_eid en) /\ terminated en' = false /\
    dispatched en' = dispatched en /\ datalog en' = datalog en.
  Proof.
    unfold start_run, schedule. cbn. destruct (now en + d <? now en); [discriminate|]. intro H. injection H as <-. cbn. repeat split.
  Qed.

  (** * renumbering the assets *)
  Variable rho : Z -> Z.
  Hypothesis rho_mono : forall a b, a < b -> rho a < rho b.

  Lemma rho_ltb a b : (rho a <? rho b) = (a <? b).
  Proof.
    destruct (Z.ltb_spec a b) as [L|G]; [apply Z.ltb_lt, rho_mono, L|].
    apply Z.ltb_ge. destruct (Z.eq_dec a b) as [->|N]; [lia|]. assert (b < a) by lia. pose proof (rho_mono b a H). lia.
  Qed.

  Lemma rho_inj a b : rho a = rho b -> a = b.
  Proof.
    intro E. destruct (Z.lt_trichotomy a b) as [L|[Eq|G]]; [pose proof (rho_mono a b L); lia|exact Eq|pose proof (rho_mono b a G); lia].
  Qed.

  Definition ren (e : event A) : event A :=
    mkEvent (e_id e) (e_time e) (e_prio e) (e_w e) (rho (e_asset e)) (e_act e) (e_paused_at e) (e_cancelled e).

  Lemma ev_ltb_ren a b : ev_ltb (ren a) (ren b) = ev_ltb a b.
  Proof.
    unfold ev_ltb, key, lt_chain. cbn [map fst snd efield_get lex_ltb ren e_time e_prio e_w e_asset].
    destruct (e_time a <? e_time b); [reflexivity|]. destruct (e_time b <? e_time a); [reflexivity|].
    destruct (- e_prio a <? - e_prio b); [reflexivity|]. destruct (- e_prio b <? - e_prio a); [reflexivity|].
    destruct (e_w a <? e_w b); [reflexivity|]. destruct (e_w b <? e_w a); [reflexivity|].
    rewrite !rho_ltb. reflexivity.
  Qed.

  Theorem insort_ren e q : insort (ren e) (map ren q) = map ren (insort e q).
  Proof.
    induction q as [|x q IH]; cbn [insort map]; [reflexivity|]. rewrite ev_ltb_ren.
    destruct (ev_ltb e x); cbn [map]; [reflexivity|]. rewrite IH. reflexivity.
  Qed.

  Lemma matches_ren a e : matches (rho a) (ren e) = matches a e.
  Proof.
    unfold matches. cbn. destruct (Z.eqb_spec (e_asset e) a) as [->|N]; [apply Z.eqb_refl|].
    apply Z.eqb_neq. intro E. apply N, rho_inj, E.
  Qed.

  Lemma filter_ren (f : event A -> bool) (g : event A -> bool) l :
    (forall e, g (ren e) = f e) -> filter g (map ren l) = map ren (filter f l).
  Proof.
    intro H. induction l as [|x l IH]; cbn; [reflexivity|]. rewrite H. destruct (f x); cbn; rewrite IH; reflexivity.
  Qed.

  Definition ren_env (en : env A) : env A :=
    mkEnv (now en) (map ren (queue en)) (map ren (paused en)) (next_eid en) (terminated en) (map ren (dispatched en)) (datalog en).

  Theorem schedule_ren (en : env A) t p a act :
    schedule ws (ren_env en) t p (rho a) act =
    match schedule ws en t p a act with Ok en' => Ok (ren_env en') | Err en' => Err (ren_env en') end.
  Proof.
    unfold schedule. cbn [now ren_env]. destruct (t <? now en); [reflexivity|]. unfold ren_env. cbn. f_equal. f_equal.
    change (mkEvent (next_eid en) t p (ws (next_eid en)) (rho a) act None false) with (ren (mkEvent (next_eid en) t p (ws (next_eid en)) a act None false)).
    apply insort_ren.
  Qed.

  Theorem pause_ren (en : env A) a : pause (ren_env en) (rho a) = ren_env (pause en a).
  Proof.
    unfold pause, ren_env. cbn. f_equal.
    - apply filter_ren. intro e. rewrite matches_ren. reflexivity.
    - rewrite map_app. f_equal. rewrite (filter_ren (matches a) (matches (rho a))) by (intro; apply matches_ren).
      rewrite !map_map. apply map_ext. intro e. reflexivity.
  Qed.

  Theorem cancel_ren (en : env A) a : cancel (ren_env en) (rho a) = ren_env (cancel en a).
  Proof.
    unfold cancel, ren_env. cbn. f_equal; rewrite !map_map; apply map_ext; intro e; rewrite matches_ren; destruct (matches a e); reflexivity.
  Qed.

  Lemma resumed_ren t e : resumed t (ren e) = ren (resumed t e).
  Proof. reflexivity. Qed.

  Theorem unpause_ren (en : env A) a : unpause (ren_env en) (rho a) = ren_env (unpause en a).
  Proof.
    unfold unpause, ren_env. cbn. f_equal.
    - rewrite (filter_ren (matches a) (matches (rho a))) by (intro; apply matches_ren).
      generalize (filter (matches a) (paused en)). generalize (queue en).
      intros q l. revert q. induction l as [|x l IH]; intro q; cbn; [reflexivity|].
      rewrite resumed_ren, insort_ren. apply IH.
    - apply filter_ren. intro e. rewrite matches_ren. reflexivity.
  Qed.
End Repro.
