(** Sensors (C19): bounded, aligned series holding the most recent measurements; the
    output-part sensor's counting; callbacks once each in order; Cms registration idempotent. *)
From Coq Require Import ZArith List Bool Lia.
From SimVerif Require Import Model.Base Model.Env Model.Sensor.
Import ListNotations.
Open Scope Z_scope.

(** [series] holds exactly the most recent min(count, c) entries of [hist] *)
Definition recent (cap : inf) {X} (hist series : list X) : Prop :=
  (exists pre, hist = pre ++ series) /\
  length series = match cap with None => length hist | Some c => Nat.min (length hist) (Z.to_nat c) end.

Lemma recent_nil cap {X} : @recent cap X [] [].
Proof. split; [exists []; reflexivity|destruct cap; reflexivity]. Qed.

(** appending one value and dropping the oldest entry when over capacity keeps [recent] *)
Lemma recent_step cap {X} (hist series : list X) (x : X) :
  match cap with Some c => 1 <= c | None => True end ->
  recent cap hist series ->
  let l := series ++ [x] in
  recent cap (hist ++ [x]) (if over_capacity cap (length l) then tl l else l).
Proof.
  intros Hc [[pre E] L]. cbn zeta. unfold over_capacity. destruct cap as [c|].
  - rewrite app_length. cbn [length]. destruct (Z.ltb_spec c (Z.of_nat (length series + 1))) as [H|H].
    + (* over capacity: the oldest entry goes *)
      destruct series as [|y rest].
      * cbn in *. lia.
      * cbn [app tl]. split.
        -- exists (pre ++ [y]). rewrite E, <- !app_assoc. reflexivity.
        -- rewrite !app_length in *. cbn [length] in *. subst hist. rewrite !app_length in *. cbn [length] in *. lia.
    + split.
      * exists pre. rewrite E, app_assoc. reflexivity.
      * rewrite !app_length in *. cbn [length]. lia.
  - split.
    + exists pre. rewrite E, app_assoc. reflexivity.
    + rewrite !app_length. cbn [length]. lia.
Qed.

(** * Sensor._collect_data over all probes *)
Definition cap_ok (cap : inf) : Prop := match cap with Some c => 1 <= c | None => True end.

(** [hists] : the complete measurement history per probe (a ghost, not part of the model state) *)
Definition SnInv (hists : list (list Z)) (s : sensor) : Prop :=
  cap_ok (sn_cap s) /\ length hists = length (sn_data s) /\
  (forall i, (i < length hists)%nat -> recent (sn_cap s) (nth i hists []) (nth i (sn_data s) [])) /\
  (forall i j, (i < length hists)%nat -> (j < length hists)%nat -> length (nth i hists []) = length (nth j hists [])).

Lemma SnInv_new cap n : cap_ok cap -> SnInv (repeat [] n) (new_sensor cap n).
Proof.
  intro H.
  assert (N : forall k i, nth i (repeat (@nil Z) k) [] = []).
  { clear. induction k as [|k IH]; intro i; destruct i; cbn; auto. }
  split; [exact H|]. split; [cbn; rewrite !repeat_length; reflexivity|]. split.
  - intros i Hi. cbn. rewrite !N. apply recent_nil.
  - intros i j _ _. rewrite !N. reflexivity.
Qed.

Lemma nth_map_combine (data : list (list Z)) (vals : list Z) i :
  length vals = length data -> (i < length data)%nat ->
  nth i (map (fun dv => fst dv ++ [snd dv]) (combine data vals)) [] = nth i data [] ++ [nth i vals 0].
Proof.
  revert vals i. induction data as [|d data IH]; intros [|v vals] i L Hi; cbn [length] in *; try lia.
  destruct i; [reflexivity|]. cbn [combine map nth]. apply IH; lia.
Qed.

Lemma all_same_length_hd (l : list (list Z)) :
  (forall i j, (i < length l)%nat -> (j < length l)%nat -> length (nth i l []) = length (nth j l [])) ->
  forall i, (i < length l)%nat -> length (nth i l []) = length (hd [] l).
Proof. intros H i Hi. destruct l as [|x l]; [cbn in Hi; lia|]. apply (H i O); [exact Hi|cbn; lia]. Qed.

Theorem collect_inv hists vals s :
  SnInv hists s -> length vals = length (sn_data s) ->
  SnInv (map (fun hv => fst hv ++ [snd hv]) (combine hists vals)) (sn_collect vals s) /\
  sn_last (sn_collect vals s) = vals /\ sn_count (sn_collect vals s) = S (sn_count s) /\
  sn_cbs (sn_collect vals s) = sn_cbs s /\ sn_time (sn_collect vals s) = sn_time s.
Proof.
  intros [HC [HL [HR HE]]] LV. split; [|cbn; auto]. unfold sn_collect.
  set (data1 := map (fun dv => fst dv ++ [snd dv]) (combine (sn_data s) vals)).
  assert (L1 : length data1 = length (sn_data s)).
  { unfold data1. rewrite map_length, combine_length. lia. }
  (* all series have the same length before, hence after the append *)
  assert (SL : forall i, (i < length (sn_data s))%nat -> length (nth i (sn_data s) []) = length (hd [] (sn_data s))).
  { intros i Hi. destruct (sn_data s) as [|d0 ds] eqn:ED; [cbn in Hi; lia|]. cbn [hd].
    assert (Hi' : (i < length hists)%nat) by (rewrite HL; exact Hi).
    assert (H0' : (0 < length hists)%nat) by (rewrite HL; cbn; lia).
    destruct (HR i Hi') as [_ Li]. destruct (HR O H0') as [_ L0]. try rewrite ED in Li. try rewrite ED in L0. cbn [nth] in L0.
    rewrite Li, L0. rewrite (HE i O Hi' H0'). reflexivity. }
  assert (HD : forall i, (i < length (sn_data s))%nat -> length (nth i data1 []) = length (hd [] data1)).
  { intros i Hi.
    assert (G : forall k, (k < length (sn_data s))%nat -> length (nth k data1 []) = S (length (hd [] (sn_data s)))).
    { intros k Hk. unfold data1. rewrite nth_map_combine by assumption. rewrite app_length. cbn [length]. rewrite SL by exact Hk. lia. }
    assert (H0 : hd [] data1 = nth 0 data1 []) by (destruct data1; reflexivity).
    rewrite H0, (G i Hi), (G O) by lia. reflexivity. }
  split; [exact HC|]. cbn [sn_cap sn_data].
  split.
  { rewrite map_length, combine_length. destruct (over_capacity _ _); rewrite ?map_length; lia. }
  split.
  - intros i Hi. rewrite map_length, combine_length in Hi.
    assert (Hi1 : (i < length hists)%nat) by lia. assert (Hi2 : (i < length (sn_data s))%nat) by lia.
    assert (Hn : nth i (map (fun hv => fst hv ++ [snd hv]) (combine hists vals)) [] = nth i hists [] ++ [nth i vals 0]).
    { apply nth_map_combine; lia. }
    rewrite Hn. pose proof (recent_step (sn_cap s) _ _ (nth i vals 0) HC (HR i Hi1)) as RS. cbn zeta in RS.
    assert (E1 : nth i data1 [] = nth i (sn_data s) [] ++ [nth i vals 0]) by (unfold data1; apply nth_map_combine; assumption).
    rewrite <- E1 in RS. rewrite (HD i Hi2) in RS.
    destruct (over_capacity (sn_cap s) (length (hd [] data1))).
    + assert (Em : nth i (map (@tl Z) data1) [] = tl (nth i data1 [])).
      { change (@nil Z) with (@tl Z []) at 1. apply map_nth. }
      rewrite Em. exact RS.
    + exact RS.
  - intros i j Hi Hj. rewrite map_length, combine_length in Hi, Hj.
    rewrite !nth_map_combine by lia. rewrite !app_length. cbn [length]. rewrite (HE i j) by lia. reflexivity.
Qed.

(** every series is bounded by the capacity and all series are aligned *)
Theorem SnInv_bounded_aligned hists s : SnInv hists s ->
  (forall i j, (i < length (sn_data s))%nat -> (j < length (sn_data s))%nat ->
               length (nth i (sn_data s) []) = length (nth j (sn_data s) [])) /\
  (forall c i, sn_cap s = Some c -> (i < length (sn_data s))%nat -> Z.of_nat (length (nth i (sn_data s) [])) <= c).
Proof.
  intros [HC [HL [HR HE]]]. split.
  - intros i j Hi Hj. rewrite <- HL in Hi, Hj. destruct (HR i Hi) as [_ Li]. destruct (HR j Hj) as [_ Lj].
    rewrite Li, Lj, (HE i j Hi Hj). reflexivity.
  - intros c i Ec Hi. rewrite <- HL in Hi. destruct (HR i Hi) as [_ Li]. rewrite Ec in Li, HC. cbn in HC. lia.
Qed.

(** * PeriodicSensor: the time series is one more aligned, bounded series *)
Theorem periodic_sense_time nw vals s times :
  cap_ok (sn_cap s) -> recent (sn_cap s) times (sn_time s) ->
  recent (sn_cap s) (times ++ [nw]) (sn_time (fst (periodic_sense nw vals s))).
Proof.
  intros HC R. unfold periodic_sense, sn_trim_time. cbn [fst].
  pose proof (recent_step (sn_cap s) times (sn_time s) nw HC R) as RS. cbn zeta in RS.
  cbn [sn_add_time sn_cap sn_time].
  destruct (over_capacity (sn_cap s) (length (sn_time s ++ [nw]))); cbn; exact RS.
Qed.

Lemma trim_time_fields s : sn_cap (sn_trim_time s) = sn_cap s /\ sn_data (sn_trim_time s) = sn_data s /\ sn_cbs (sn_trim_time s) = sn_cbs s /\
  sn_count (sn_trim_time s) = sn_count s.
Proof. unfold sn_trim_time. destruct (over_capacity _ _); repeat split; reflexivity. Qed.

Lemma SnInv_trim hists s : SnInv hists s -> SnInv hists (sn_trim_time s).
Proof. unfold sn_trim_time. destruct (over_capacity _ _); intro H; exact H. Qed.

Theorem periodic_sense_probes hists nw vals s :
  SnInv hists s -> length vals = length (sn_data s) ->
  SnInv (map (fun hv => fst hv ++ [snd hv]) (combine hists vals)) (fst (periodic_sense nw vals s)) /\
  (* each callback once, in registration order, with (time, values just measured) *)
  snd (periodic_sense nw vals s) = map (fun c => (c, nw, vals)) (sn_cbs s).
Proof.
  intros I LV. unfold periodic_sense. cbn [fst snd].
  assert (I0 : SnInv hists (sn_trim_time (sn_add_time nw s))) by (apply SnInv_trim; exact I).
  destruct (trim_time_fields (sn_add_time nw s)) as [_ [TD [TC _]]].
  assert (LV' : length vals = length (sn_data (sn_trim_time (sn_add_time nw s)))) by (rewrite TD; exact LV).
  destruct (collect_inv hists vals _ I0 LV') as [I1 [E1 [_ [E2 _]]]].
  split; [exact I1|]. unfold sn_sense_calls. rewrite E1, E2, TC. reflexivity.
Qed.

(** what the on-sense callbacks of a periodic sensor see: the measurement is taken in the state that is also the final one, in which the
    time series and every per-probe series hold the same number of entries (given that they did before the measurement) *)
Theorem periodic_sense_aligned_at_notification hists nw vals s times :
  SnInv hists s -> length vals = length (sn_data s) -> recent (sn_cap s) times (sn_time s) ->
  (forall i, (i < length hists)%nat -> length (nth i hists []) = length times) ->
  let s1 := fst (periodic_sense nw vals s) in
  forall i, (i < length (sn_data s1))%nat -> length (nth i (sn_data s1) []) = length (sn_time s1).
Proof.
  intros I LV RT AL s1 i Hi.
  destruct (periodic_sense_probes hists nw vals s I LV) as [[HC [HL [HR HE]]] _]. fold s1 in HC, HL, HR.
  assert (C1 : sn_cap s1 = sn_cap s).
  { unfold s1, periodic_sense. cbn [fst]. unfold sn_collect. cbn [sn_cap]. destruct (trim_time_fields (sn_add_time nw s)) as [X _]. exact X. }
  pose proof (periodic_sense_time nw vals s times (proj1 I) RT) as [_ LT]. fold s1 in LT.
  rewrite <- HL in Hi. destruct (HR i Hi) as [_ Li]. rewrite Li, LT, C1.
  assert (LH : length (nth i (map (fun hv => fst hv ++ [snd hv]) (combine hists vals)) []) = length (times ++ [nw])).
  { rewrite map_length, combine_length in Hi.
    destruct I as [_ [HL0 _]]. rewrite nth_map_combine by lia. rewrite !app_length. cbn [length]. rewrite AL by lia. reflexivity. }
  rewrite LH. reflexivity.
Qed.

(** * OutputPartSensor: first finished part, then every (n+1)-th *)
Definition measured (n : Z) (i : nat) : bool := (Z.of_nat i mod (n + 1) =? 0).
(** the counter after [i] finished parts *)
Definition counter_after (n : Z) (i : nat) : Z :=
  let m := Z.of_nat i mod (n + 1) in if m =? 0 then 0 else n + 1 - m.

Lemma mod_succ i k : 0 < k -> 0 <= i ->
  (i + 1) mod k = if i mod k =? k - 1 then 0 else i mod k + 1.
Proof.
  intros Hk Hi. pose proof (Z.div_mod i k ltac:(lia)) as E. pose proof (Z.mod_pos_bound i k Hk) as B.
  destruct (Z.eqb_spec (i mod k) (k - 1)) as [Em|Nm].
  - symmetry. apply (Z.mod_unique_pos _ _ (i / k + 1)); [lia|]. rewrite Em in E. rewrite E at 1. ring.
  - symmetry. apply (Z.mod_unique_pos _ _ (i / k)); [lia|]. rewrite E at 1. ring.
Qed.

Theorem probe_part_counting nw n vals s i :
  0 <= n -> sn_counter s = counter_after n i ->
  let r := probe_part nw n vals s in
  sn_counter (fst r) = counter_after n (S i) /\
  (measured n i = true -> sn_count (fst r) = S (sn_count s) /\ sn_last (fst r) = vals /\
                          snd r = map (fun c => (c, nw, vals)) (sn_cbs s)) /\
  (measured n i = false -> sn_count (fst r) = sn_count s /\ sn_data (fst r) = sn_data s /\ snd r = []).
Proof.
  intros Hn Hc. unfold probe_part, measured, counter_after in *. cbn zeta in *.
  assert (Hs : Z.of_nat (S i) = Z.of_nat i + 1) by lia. rewrite Hs.
  rewrite (mod_succ (Z.of_nat i) (n + 1)) by lia.
  pose proof (Z.mod_pos_bound (Z.of_nat i) (n + 1) ltac:(lia)) as B.
  set (m := Z.of_nat i mod (n + 1)) in *.
  destruct (Z.eqb_spec m 0) as [E0|N0].
  - (* measured *)
    rewrite Hc. cbn [Z.sub Z.ltb Z.compare]. change (0 - 1 <? 0) with true. cbn [fst snd].
    split.
    + cbn. destruct (Z.eqb_spec m (n + 1 - 1)) as [E1|N1]; cbn.
      * (* n = 0 *) assert (n = 0) by lia. subst n. reflexivity.
      * destruct (Z.eqb_spec (m + 1) 0); lia.
    + split; [intros _; cbn; repeat split|discriminate].
  - rewrite Hc. destruct (Z.ltb_spec (n + 1 - m - 1) 0) as [Hlt|Hge]; [lia|]. cbn [fst snd].
    split.
    + cbn. destruct (Z.eqb_spec m (n + 1 - 1)) as [E1|N1]; cbn; [lia|].
      destruct (Z.eqb_spec (m + 1) 0); lia.
    + split; [discriminate|intros _; cbn; auto].
Qed.

Lemma counter_after_init n : 0 <= n -> counter_after n 0 = 0.
Proof. intro H. unfold counter_after. change (Z.of_nat 0) with 0. rewrite Z.mod_0_l by lia. reflexivity. Qed.

(** the parts measured are exactly number 1, n+2, 2n+3, ... *)
Lemma measured_spec n i : 0 <= n -> measured n i = true <-> exists j, Z.of_nat i = j * (n + 1).
Proof.
  intro Hn. unfold measured. rewrite Z.eqb_eq. split.
  - intro H. exists (Z.of_nat i / (n + 1)). pose proof (Z.div_mod (Z.of_nat i) (n + 1) ltac:(lia)). lia.
  - intros [j E]. rewrite E. apply Z.mod_mul. lia.
Qed.

(** * Cms.add_sensor is idempotent *)
Theorem cms_add_idempotent l sid :
  cms_add (fst (cms_add l sid)) sid = (fst (cms_add l sid), false).
Proof.
  unfold cms_add. destruct (existsb (Z.eqb sid) l) eqn:E; cbn [fst].
  - rewrite E. reflexivity.
  - rewrite existsb_app. cbn. rewrite Z.eqb_refl, orb_true_r. reflexivity.
Qed.
