(** C05 — Buffer contract: capacity, level, FIFO order and minimum delay.  Statements only.
    The buffer's surroundings are arbitrary: the theorems hold for every world, every event
    action, every downstream acceptance pattern (the proofs never look at what [give] answers). *)
From Coq Require Import ZArith List Bool Lia.
From RecordUpdate Require Import RecordUpdate.
From SimVerif Require Import Model.Base Model.Env Model.FamEnv Model.RM Model.Maint Model.FloorTypes Model.Floor Model.FamFloor.
From SimVerif Require Import Proofs.FloorReach Proofs.FloorSteps Proofs.FloorInv Proofs.FloorSys.
Import ListNotations.
Open Scope Z_scope.

(** the reported level equals the number of parts stored (every part of a batch counts; a part
    being taken in counts from the moment the level is raised) and never exceeds the capacity *)
Theorem C05_invariant_meaning : forall x, BufInv x -> d_kind x = KBuffer ->
  d_level x = buf_count (d_buf x) + opt_count (d_part x) /\ inf_leb (d_level x) (d_capacity x) = true.
Proof. intros x H K. exact (H K). Qed.

(** preserved by every event action ... *)
Theorem C05_level_capacity_event : forall nw fuel uops a w,
  DevInv BufInv w -> DevInv BufInv (exec_fact fuel uops a w nw).
Proof. intros. apply exec_DevInv; [apply stable_BufInv|assumption]. Qed.

(** ... hence by every step of the simulation (any tie-break weights), by calls made between events ... *)
Theorem C05_level_capacity_step : forall sc ws s r,
  DevInv BufInv (fst s) -> step ws (exec_fl sc) fl_wfail s = Some r -> DevInv BufInv (fst (res_val r)).
Proof. intros sc ws. apply (step_DevInv sc ws BufInv stable_BufInv). Qed.

Theorem C05_level_capacity_call : forall fuel nw w o, DevInv BufInv w -> DevInv BufInv (run_uop fuel nw w o).
Proof. apply (uop_DevInv BufInv stable_BufInv). Qed.

(** FIFO and minimum delay: during an event action at time nw the stored entries (arrival time, item)
    of any device change only by: an arrival stamped nw joining at the back, or the head leaving —
    and the head leaves only if its minimum delay has elapsed *)
Theorem C05_fifo_min_delay : forall nw fuel uops a w d x,
  aget d (f_devs w) = Some x ->
  exists x', aget d (f_devs (exec_fact fuel uops a w nw)) = Some x' /\ fifo nw x x'.
Proof. exact exec_fifo. Qed.

(** the buffer invariant in every reachable state of every well-formed scenario *)
Theorem C05_always : forall sc s d x, reach_fl sc s -> aget d (f_devs (fst s)) = Some x -> BufInv x.
Proof. intros sc s d x H Hx. exact (proj1 (proj2 (reach_dev sc s d x H Hx))). Qed.

Print Assumptions C05_invariant_meaning.
Print Assumptions C05_level_capacity_event.
Print Assumptions C05_level_capacity_step.
Print Assumptions C05_level_capacity_call.
Print Assumptions C05_fifo_min_delay.

Print Assumptions C05_always.
(** Non-vacuity: a buffer of capacity 2 takes a batch of two parts; the level is 2 and the invariant holds. *)
Example C05_nonvacuous :
  let b := (blank_dev KBuffer) <| d_capacity := Some 2 |> in
  let it := IBatch (mkPart 9 0 0 [] []) [mkPart 7 0 8 [] []; mkPart 8 0 8 [] []] in
  let x := t_buf_store 5 it (t_accept_buffer 5 it b) in
  BufInv b /\ BufInv x /\ d_level x = 2 /\ buf_keys x = [(5, 9)].
Proof. unfold BufInv. cbn. repeat split; intros; try reflexivity. Qed.
