(** C03 — No lost wake-up.  Statements only.
    PARTIAL: proved are the local wake-up rules (a refused hand-over leaves the waiting flag set; a waiting operational
    device told about space schedules a new attempt at the same instant; restore / unblock / budget raise / resource changes
    end in such a signal or attempt; availability checks after every release/registration/capacity change, C10).  The global
    statement "when time advances every blocked part is genuinely blocked" and termination of a finite-horizon run are
    decided on the implementation by the liveness monitor (re-offering every held part when the clock is about to advance)
    and by the harness' step bound. *)
From Coq Require Import ZArith List Bool Lia Sorting.Permutation Sorting.Sorted.
From RecordUpdate Require Import RecordUpdate.
From SimVerif Require Import Model.Base Model.Env Model.FamEnv Model.RM Model.Maint Model.FloorTypes Model.Floor Model.FamFloor.
From SimVerif Require Import Proofs.RMInv Proofs.EnvInv Proofs.EnvPause Proofs.FloorSteps Proofs.FloorInv Proofs.FloorSys Proofs.FloorProc Proofs.FloorFlow Proofs.FloorRes.
Import ListNotations.
Open Scope Z_scope.

Theorem C03_refused_sets_waiting : forall fuel nw w d w',
  handler_pass fuel nw w d = (w', false) -> d_out (getd w d) <> None -> operational (getd w d) = true ->
  amem d (f_devs w) = true -> d_waiting_ds (getd w' d) = true.
Proof. exact handler_pass_refused. Qed.

Theorem C03_wakeup_schedules_attempt_now : forall f nw w d,
  is_holder (d_kind (getd w d)) = true -> d_kind (getd w d) <> KSink ->
  operational (getd w d) = true -> d_waiting_ds (getd w d) = true ->
  signal (S f) nw false w d = emitf (updd w d (t_waiting_ds false)) (FSched (Z.max 0 (nw + 0)) P_PASS_PART d (APassPart d)).
Proof. exact wakeup_schedules. Qed.

Theorem C03_restore_wakes : forall fuel nw w d,
  d_kind (getd w d) = KProcessor -> d_shut (getd w d) = true ->
  exists w1, w1 = emitf (updd w d (t_restore nw)) (FUnpause d) /\
  restore fuel nw w d =
  run_cbops nw d true false (-1) (d_on_restore (getd w d))
    (match d_out (getd w d), d_part (getd w d) with
     | Some _, _ => sched_pass nw 0 w1 d
     | None, None => signal fuel nw true w1 d
     | None, Some _ => w1
     end).
Proof. exact restore_wakes. Qed.

Theorem C03_unblock_wakes : forall fuel nw w d,
  f_err w = 0 -> d_block (getd w d) = true ->
  run_uop fuel nw w (UBlock d false) = signal fuel nw true (updd w d (t_block false)) d.
Proof. exact unblock_wakes. Qed.

Theorem C03_budget_raise_wakes : forall fuel nw w d b z,
  f_err w = 0 -> d_budget (getd w d) = Some b -> b - d_produced (getd w d) < 1 ->
  run_uop fuel nw w (UAdjust d z) = sched_pass nw 0 (updd w d (t_budget (Z.max (b + z) (d_produced (getd w d))))) d.
Proof. exact budget_raise_wakes. Qed.

(** a part that stays after a hand-over attempt is genuinely blocked at that moment: it was offered, longest idle first, to every
    configured downstream neighbour and each of them refused *)
Theorem C03_blocked_means_all_refused : forall fuel nw w d w' it,
  handler_pass fuel nw w d = (w', false) -> d_out (getd w d) = Some it -> operational (getd w d) = true -> amem d (f_devs w) = true ->
  exists w1, refused_all nw fuel it w (sorted_down fuel w d) w1 /\ w' = updd w1 d (t_waiting_ds true) /\
             Permutation (sorted_down fuel w d) (d_down (getd w d)).
Proof. exact handler_pass_genuinely_blocked. Qed.

Print Assumptions C03_refused_sets_waiting.
Print Assumptions C03_wakeup_schedules_attempt_now.
Print Assumptions C03_restore_wakes.
Print Assumptions C03_unblock_wakes.
Print Assumptions C03_budget_raise_wakes.

Print Assumptions C03_blocked_means_all_refused.
Example C03_nonvacuous :
  let x := (blank_dev KHandler) <| d_waiting_ds := true |> in
  let w := mkFw [(1, x)] [] init_rs [] 1 [] [] 0 in
  f_out (signal 1 5 false w 1) = [FSched 5 P_PASS_PART 1 (APassPart 1)] /\ d_waiting_ds (getd (signal 1 5 false w 1) 1) = false.
Proof. split; reflexivity. Qed.
