(** C03 — No lost wake-up.  Statements only.
    Proved: (1) the local wake-up rules (a refused hand-over leaves the waiting flag set, and it was refused by every downstream
    neighbour; a waiting operational device told about space schedules a new attempt at the same instant; restore / unblock /
    budget raise / resource changes end in such a signal or attempt; availability checks after every release / registration /
    capacity change, C10);  (2) at the level of the event queue (Proofs/FloorWake.v, FloorWakeInv.v), for every state reached
    without a Python exception, including every state inside a run: **no ready part is forgotten** — a device holding a part
    that is ready to leave is flagged as waiting for downstream space or has a hand-over attempt of its own pending in the
    queue, unless it is a shut-down processor (restore re-schedules) or a source whose budget is used up (a raise re-schedules)
    ([C03_ready_part_flagged_or_pending]).
    PARTIAL: the remaining global step — "a flagged part would still be refused by every neighbour whenever time advances" (every
    change that could unblock it went through one of the signals of (1)) — and termination of a finite-horizon run are decided on
    the implementation by the liveness monitor (re-offering every held part when the clock is about to advance) and by the
    harness' step bound. *)
From Coq Require Import ZArith List Bool Lia Sorting.Permutation Sorting.Sorted.
From RecordUpdate Require Import RecordUpdate.
From SimVerif Require Import Model.Base Model.Env Model.FamEnv Model.RM Model.Maint Model.FloorTypes Model.Floor Model.FamFloor.
From SimVerif Require Import Proofs.RMInv Proofs.EnvInv Proofs.EnvPause Proofs.FloorSteps Proofs.FloorInv Proofs.FloorSys Proofs.FloorProc Proofs.FloorFlow Proofs.FloorRes Proofs.FloorLink Proofs.FloorIdle Proofs.FloorWake Proofs.FloorWakeInv.
Import ListNotations.
Open Scope Z_scope.

Theorem C03_refused_sets_waiting : forall fuel nw w d w',
  handler_pass fuel nw w d = (w', false) -> d_out (getd w d) <> None -> operational (getd w d) = true ->
  amem d (f_devs w) = true -> d_waiting_ds (getd w' d) = true.
Proof. exact handler_pass_refused. Qed.

Theorem C03_wakeup_schedules_attempt_now : forall f nw w d,
  is_holder (d_kind (getd w d)) = true -> d_kind (getd w d) <> KSink ->
  operational (getd w d) = true -> d_waiting_ds (getd w d) = true ->
  signal (S f) nw false w d = emitf (updd w d (t_waiting_ds false)) (FSched (Z.max 0 (nw + 0)) P_PASS_PART d (APassPart d)).
Proof. exact wakeup_schedules. Qed.

Theorem C03_restore_wakes : forall fuel nw w d,
  d_kind (getd w d) = KProcessor -> d_shut (getd w d) = true ->
  exists w1, w1 = emitf (updd w d (t_restore nw)) (FUnpause d) /\
  restore fuel nw w d =
  run_cbops nw d true false (-1) (d_on_restore (getd w d))
    (match d_out (getd w d), d_part (getd w d) with
     | Some _, _ => sched_pass nw 0 w1 d
     | None, None => signal fuel nw true w1 d
     | None, Some _ => w1
     end).
Proof. exact restore_wakes. Qed.

Theorem C03_unblock_wakes : forall fuel nw w d,
  f_err w = 0 -> d_block (getd w d) = true ->
  run_uop fuel nw w (UBlock d false) = signal fuel nw true (updd w d (t_block false)) d.
Proof. exact unblock_wakes. Qed.

Theorem C03_budget_raise_wakes : forall fuel nw w d b z,
  f_err w = 0 -> d_budget (getd w d) = Some b -> b - d_produced (getd w d) < 1 ->
  run_uop fuel nw w (UAdjust d z) = sched_pass nw 0 (updd w d (t_budget (Z.max (b + z) (d_produced (getd w d))))) d.
Proof. exact budget_raise_wakes. Qed.

(** a part that stays after a hand-over attempt is genuinely blocked at that moment: it was offered, longest idle first, to every
    configured downstream neighbour and each of them refused *)
Theorem C03_blocked_means_all_refused : forall fuel nw w d w' it,
  handler_pass fuel nw w d = (w', false) -> d_out (getd w d) = Some it -> operational (getd w d) = true -> amem d (f_devs w) = true ->
  exists w1, refused_all nw fuel it w (sorted_down fuel w d) w1 /\ w' = updd w1 d (t_waiting_ds true) /\
             Permutation (sorted_down fuel w d) (d_down (getd w d)).
Proof. exact handler_pass_genuinely_blocked. Qed.

Print Assumptions C03_refused_sets_waiting.
Print Assumptions C03_wakeup_schedules_attempt_now.
Print Assumptions C03_restore_wakes.
Print Assumptions C03_unblock_wakes.
Print Assumptions C03_budget_raise_wakes.

Print Assumptions C03_blocked_means_all_refused.
Example C03_nonvacuous :
  let x := (blank_dev KHandler) <| d_waiting_ds := true |> in
  let w := mkFw [(1, x)] [] init_rs [] 1 [] [] 0 in
  f_out (signal 1 5 false w 1) = [FSched 5 P_PASS_PART 1 (APassPart 1)] /\ d_waiting_ds (getd (signal 1 5 false w 1) 1) = false.
Proof. split; reflexivity. Qed.

(** a connection added while the simulation is in progress: the new upstream is told at that same instant that space may be
    available (a waiting operational device then schedules its attempt now, [C03_wakeup_schedules_attempt_now]) *)
Theorem C03_connection_added_wakes : forall fuel nw w d u,
  existsb (bad_up d w) [u] = false ->
  let w0 := if is_holder (d_kind (getd w d)) then
              match d_wait_since (getd w d) with Some _ => updd w d (dev_set_wait nw true true) | None => w end
            else w in
  let w2 := updd (fold_left (fun w' v => updd w' v (t_down_del d)) (d_up (getd w d)) w0) d (t_up [u]) in
  existsb (Z.eqb d) (d_down (getd w2 u)) = false ->
  rewire fuel nw w d [u] = signal fuel nw false (updd w2 u (t_down_add d)) u.
Proof. intros fuel nw w d u V w0 w2 NEW. unfold rewire. rewrite V. cbn [fold_left]. fold w0. fold w2. rewrite NEW. reflexivity. Qed.
Print Assumptions C03_connection_added_wakes.

(** a device constructed while the simulation is in progress with upstream devices named in its constructor: once it exists and
    is initialised, the connection is made exactly as by [set_upstream] — so every named upstream device is told at that same
    instant ([C03_connection_added_wakes]).  [reach_in] (FloorIdle.v) has such constructions among its steps, so the queue-level
    theorem below covers them. *)
Theorem C03_late_device_is_connected_like_rewire : forall fuel nw w d ups,
  d_live (getd w d) = false -> pristine (getd w d) = true -> late_kind (d_kind (getd w d)) = true -> amem d (f_devs w) = true ->
  d_up (getd w d) = [] -> d_down (getd w d) = [] ->
  late_create fuel nw w d ups =
  rewire fuel nw (init_dev fuel nw (updd (w <| f_next_id := f_next_id w + 1 |>) d t_live) d) d ups.
Proof. intros fuel nw w d ups L P K A U D. unfold late_create. rewrite L, P, K, A, U, D. reflexivity. Qed.
Print Assumptions C03_late_device_is_connected_like_rewire.

(** * queue level: no ready part is forgotten *)
Theorem C03_ready_part_flagged_or_pending : forall sc s d,
  reach_in sc s -> ready (getd (fst s) d) ->
  exempt (getd (fst s) d) \/ d_waiting_ds (getd (fst s) d) = true \/
  exists e : event fact, e_asset e = d /\ e_act e = Some (APassPart d) /\ e_cancelled e = false /\ In e (queue (snd s)).
Proof. exact ready_part_flagged_or_pending. Qed.

(** what "ready", "exempt" mean, spelled out *)
Theorem C03_ready_def : forall x, ready x <->
  match d_kind x with
  | KHandler | KProcessor | KSource | KBatcher => d_out x <> None
  | KBuffer => d_buf x <> []
  | _ => False
  end.
Proof. intro x. reflexivity. Qed.
Theorem C03_exempt_def : forall x, exempt x <->
  (d_kind x = KProcessor /\ d_shut x = true) \/
  (d_kind x = KSource /\ exists b, d_budget x = Some b /\ Z.max (b - d_produced x) 0 < 1).
Proof.
  intro x. unfold exempt, exhausted. split; (intros [H|[K H]]; [left; exact H|right; split; [exact K|]]).
  - destruct (d_budget x) as [b|]; [|discriminate]. exists b. split; [reflexivity|]. apply negb_true_iff, Z.leb_gt in H. exact H.
  - destruct H as [b [-> H]]. apply negb_true_iff, Z.leb_gt. exact H.
Qed.

(** a hand-over attempt always leaves its own device in order, whatever state it was in: passed on, flagged, or re-scheduled *)
Theorem C03_attempt_settles_its_device : forall ws nw skip en0 fuel w d,
  LP ws (fun d' => skip d' \/ d' = d) en0 w -> LP ws skip en0 (pass_part fuel nw w d).
Proof. exact pass_part_fix. Qed.

Print Assumptions C03_ready_part_flagged_or_pending.
Print Assumptions C03_exempt_def.
Print Assumptions C03_attempt_settles_its_device.

(** Non-vacuity: source (cycle 8) -> processor (cycle 24) -> sink.  After one event the source holds a part with its attempt
    pending; after four the processor is busy, the source's part was refused and is flagged, and time is about to advance. *)
Definition c03_world : fw :=
  mkFw [(1, (blank_dev KSource) <| d_down := [2] |> <| d_cycle := 8 |>);
        (2, (blank_dev KProcessor) <| d_up := [1] |> <| d_down := [3] |> <| d_cycle := 24 |>);
        (3, (blank_dev KSink) <| d_up := [2] |>)] [] init_rs [] 10 [] [] 0.
Definition c03_sc : fl_scn := mkFlScn 1 1 c03_world [] [].
Definition c03_s0 := fst (do_fxop c03_sc (c03_world, init_env) FXInit).
Example C03_queue_nonvacuous :
  reach_in c03_sc (fx_steps c03_sc 1 c03_s0) /\ ready (getd (fst (fx_steps c03_sc 1 c03_s0)) 1) /\
  d_waiting_ds (getd (fst (fx_steps c03_sc 1 c03_s0)) 1) = false /\
  map (fun e => (e_time e, e_asset e, e_act e)) (queue (snd (fx_steps c03_sc 1 c03_s0))) = [(8, 1, Some (APassPart 1))] /\
  reach_in c03_sc (fx_steps c03_sc 4 c03_s0) /\ ready (getd (fst (fx_steps c03_sc 4 c03_s0)) 1) /\
  d_waiting_ds (getd (fst (fx_steps c03_sc 4 c03_s0)) 1) = true /\
  now (snd (fx_steps c03_sc 4 c03_s0)) = 16 /\ map (fun e => e_time e) (queue (snd (fx_steps c03_sc 4 c03_s0))) = [32].
Proof.
  assert (R0 : reach_ok c03_sc c03_s0).
  { apply ro_init; [vm_compute; reflexivity|]. unfold c03_s0. vm_compute. reflexivity. }
  split; [apply reach_ok_in, fx_steps_reach; [exact R0|vm_compute; reflexivity]|].
  split; [vm_compute; congruence|]. split; [vm_compute; reflexivity|]. split; [vm_compute; reflexivity|].
  split; [apply reach_ok_in, fx_steps_reach; [exact R0|vm_compute; reflexivity]|].
  split; [vm_compute; congruence|]. repeat split; vm_compute; reflexivity.
Qed.

(** Non-vacuity of the late-construction steps: source (cycle 8) -> processor (cycle 8) -> sink whose input is blocked before
    the first event.  After six events the queue is empty: the processor holds a finished part, flagged, and the source a refused one; then a second
    sink is constructed with the processor as its upstream (key 1001): the processor's attempt is scheduled at that very instant
    (time 16), and four events later the new sink has received the waiting part. *)
Definition c03l_world : fw :=
  mkFw [(1, (blank_dev KSource) <| d_down := [2] |> <| d_cycle := 8 |>);
        (2, (blank_dev KProcessor) <| d_up := [1] |> <| d_down := [3] |> <| d_cycle := 8 |>);
        (3, (blank_dev KSink) <| d_up := [2] |>);
        (1001, (blank_dev KSink) <| d_live := false |>)] [] init_rs [] 10 [] [] 0.
Definition c03l_sc : fl_scn := mkFlScn 1 1 c03l_world [] [].
Definition c03l_s0 := fst (do_fxop c03l_sc (c03l_world, init_env) FXInit).
Definition c03l_sb := fst (do_fxop c03l_sc c03l_s0 (FXNow (UBlock 3 true))).
Definition c03l_s8 := fx_steps c03l_sc 6 c03l_sb.
Definition c03l_sl := fst (do_fxop c03l_sc c03l_s8 (FXLate 1001 [2])).
Definition c03l_se := fx_steps c03l_sc 4 c03l_sl.
Example C03_late_nonvacuous :
  reach_in c03l_sc c03l_se /\
  (is_none (d_out (getd (fst c03l_s8) 2)), d_waiting_ds (getd (fst c03l_s8) 2), d_wait_since (getd (fst c03l_s8) 1001)) = (false, true, None) /\
  (now (snd c03l_sl), d_waiting_ds (getd (fst c03l_sl) 2), d_wait_since (getd (fst c03l_sl) 1001), f_next_id (fst c03l_sl) - f_next_id (fst c03l_s8)) =
    (16, false, Some 16, 1) /\
  In (16, 2, Some (APassPart 2)) (map (fun e => (e_time e, e_asset e, e_act e)) (queue (snd c03l_sl))) /\
  d_received (getd (fst c03l_se) 1001) = 1.
Proof.
  assert (R0 : reach_ok c03l_sc c03l_s0).
  { apply ro_init; [vm_compute; reflexivity|]. unfold c03l_s0. vm_compute. reflexivity. }
  assert (Rb : reach_ok c03l_sc c03l_sb).
  { apply (ro_op c03l_sc c03l_s0 (FXNow (UBlock 3 true))); [exact R0|discriminate|]. unfold c03l_sb. vm_compute. reflexivity. }
  assert (R8 : reach_ok c03l_sc c03l_s8) by (apply fx_steps_reach; [exact Rb|vm_compute; reflexivity]).
  assert (Rl : reach_ok c03l_sc c03l_sl).
  { apply (ro_op c03l_sc c03l_s8 (FXLate 1001 [2])); [exact R8|discriminate|]. unfold c03l_sl. vm_compute. reflexivity. }
  split; [apply reach_ok_in, fx_steps_reach; [exact Rl|vm_compute; reflexivity]|].
  split; [vm_compute; reflexivity|]. split; [vm_compute; reflexivity|]. split; [vm_compute; tauto|vm_compute; reflexivity].
Qed.
