(** C14 — Reproducibility: same seed, same results; runs can be split and parallelised.  Statements only.
    Proved on the event-system model, for every action behaviour: the evolution depends on the random generator only through
    the tie-break weights drawn ([C14_same_weights]); it does not depend on how events are numbered ([C14_numbering_independent]);
    any order-preserving renumbering of the asset ids commutes with every queue operation ([C14_renumber_*]); the marker event of
    Environment.run is transparent ([C14_run_marker_*]); and, from these, **running for a and then for b ends in the same world,
    clock, recorded data and pending/paused events as running once for a+b, when the second run hands the remaining events the
    weights the single run gives them** ([C14_run_split]); the theorem applies to the whole floor system ([C14_floor_run_split]):
    every environment call of a floor action is well-formed ([C14_floor_calls_well_formed]: scheduled above the marker's priority,
    pause/unpause/cancel only for existing devices).  The floor model is a pure function of scenario and weights, and the
    lock-step shows the implementation computes that function at whatever value the process-wide id counter has.
    PARTIAL only for the clause about worker processes (a Coq model cannot exhibit them): decided by the reproducibility monitor
    on the implementation (rerun / seeded twice / split / multi-process). *)
From Coq Require Import ZArith List Bool Lia.
From Coq Require Import Sorting.Sorted.
From RecordUpdate Require Import RecordUpdate.
From SimVerif Require Import Model.Base Model.Env Model.FamEnv Model.RM Model.Maint Model.FloorTypes Model.Floor Model.FamFloor.
From SimVerif Require Import Proofs.EnvInv Proofs.EnvRepro Proofs.EnvSplit Proofs.FloorCmd Proofs.FloorSplit.
Import ListNotations.
Open Scope Z_scope.

Section C14.
  Variables (A W : Type) (exec : A -> W -> Z -> W * list (cmd A)) (wfail : W -> bool).

  Theorem C14_same_weights : forall ws ws', (forall n, ws n = ws' n) ->
    forall fuel d s, run ws exec wfail fuel d s = run ws' exec wfail fuel d s.
  Proof. exact (run_ext A W exec wfail). Qed.
  Theorem C14_same_weights_step : forall ws ws', (forall n, ws n = ws' n) ->
    forall s, step ws exec wfail s = step ws' exec wfail s.
  Proof. exact (step_ext A W exec wfail). Qed.

  Theorem C14_run_marker_only_stops : forall ws w (en : env A) e q,
    queue en = e :: q -> e_cancelled e = false -> e_act e = None ->
    step ws exec wfail (w, en) =
    Some (Ok (w, mkEnv (e_time e) q (paused en) (next_eid en) true (e :: dispatched en) (datalog en))).
  Proof. intro ws. exact (marker_step A W exec wfail ws). Qed.
  Theorem C14_run_marker_insertion : forall ws (en : env A) d en',
    start_run ws en d = Ok en' ->
    queue en' = insort (mkEvent (next_eid en) (now en + d) P_TERMINATE (ws (next_eid en)) (-1) None None false) (queue en) /\
    now en' = now en /\ paused en' = paused en /\ next_eid en' = S (next_eid en) /\ terminated en' = false /\
    dispatched en' = dispatched en /\ datalog en' = datalog en.
  Proof. intro ws. exact (start_run_spec A ws). Qed.

  Section Renumber.
    Variable rho : Z -> Z.
    Hypothesis rho_mono : forall a b, a < b -> rho a < rho b.
    Theorem C14_renumber_order : forall a b : event A, ev_ltb (ren A rho a) (ren A rho b) = ev_ltb a b.
    Proof. exact (ev_ltb_ren A rho rho_mono). Qed.
    Theorem C14_renumber_insert : forall (e : event A) q, insort (ren A rho e) (map (ren A rho) q) = map (ren A rho) (insort e q).
    Proof. exact (insort_ren A rho rho_mono). Qed.
    Theorem C14_renumber_schedule : forall ws (en : env A) t p a act,
      schedule ws (ren_env A rho en) t p (rho a) act =
      match schedule ws en t p a act with Ok en' => Ok (ren_env A rho en') | Err en' => Err (ren_env A rho en') end.
    Proof. intro ws. exact (schedule_ren A ws rho rho_mono). Qed.
    Theorem C14_renumber_pause : forall (en : env A) a, pause (ren_env A rho en) (rho a) = ren_env A rho (pause en a).
    Proof. exact (pause_ren A rho rho_mono). Qed.
    Theorem C14_renumber_unpause : forall (en : env A) a, unpause (ren_env A rho en) (rho a) = ren_env A rho (unpause en a).
    Proof. exact (unpause_ren A rho rho_mono). Qed.
    Theorem C14_renumber_cancel : forall (en : env A) a, cancel (ren_env A rho en) (rho a) = ren_env A rho (cancel en a).
    Proof. exact (cancel_ren A rho rho_mono). Qed.
  End Renumber.
End C14.

(** the evolution does not depend on the numbering of events: two environments that agree up to event numbers, driven by weight
    sources that agree on the numbers still to be handed out, make the same step and stay in agreement *)
Theorem C14_numbering_independent : forall (A W : Type) (exec : A -> W -> Z -> W * list (cmd A)) (wfail : W -> bool) (ws ws' : nat -> Z) w (en en' : env A),
  eqv A (queue en) (queue en') -> eqv A (paused en) (paused en') -> terminated en' = terminated en -> datalog en' = datalog en ->
  wsync A ws ws' en en' ->
  match step ws exec wfail (w, en), step ws' exec wfail (w, en') with
  | None, None => True
  | Some (Ok (w1, e1)), Some (Ok (w1', e1')) => w1' = w1 /\ env_eqv A e1 e1' /\ wsync A ws ws' e1 e1'
  | Some (Err (w1, e1)), Some (Err (w1', e1')) => w1' = w1 /\ env_eqv A e1 e1' /\ wsync A ws ws' e1 e1'
  | _, _ => False
  end.
Proof. exact step_eqv. Qed.

(** RUN SPLIT.  [clean]: the pending and paused events are ordinary (priority above the terminate priority) and the queue is
    sorted (C01); [exec_ok]: actions schedule only above the terminate priority and never pause/cancel the environment's own id -1. *)
Theorem C14_run_split : forall (A W : Type) (exec : A -> W -> Z -> W * list (cmd A)) (wfail : W -> bool),
  (forall a w t, Forall (cmd_ok A) (snd (exec a w t))) ->
  forall ws ws2 fuel a b w (en : env A) w2 en2,
  0 <= a -> 0 <= b -> clean A en ->
  run ws exec wfail fuel (a + b) (w, en) = Some (Ok (w2, en2)) ->
  exists w1 en1,
    run ws exec wfail (S fuel) a (w, en) = Some (Ok (w1, en1)) /\ now en1 = now en + a /\
    ((forall i, ws2 (S (next_eid en1) + i)%nat = ws (next_eid en1 + i)%nat) ->
     exists en2', run ws2 exec wfail (S fuel) b (w1, en1) = Some (Ok (w2, en2')) /\
                  eqv A (queue en2) (queue en2') /\ eqv A (paused en2) (paused en2') /\ datalog en2' = datalog en2 /\
                  now en2' = now en2 /\ now en2 = now en + (a + b) /\ terminated en2' = true /\ terminated en2 = true).
Proof. exact run_split. Qed.

(** simulate_multiple_times: one system per index, in index order (the list comprehension / the futures list of system.py) *)
Theorem C14_results_in_index_order : forall (X : Type) (sim : nat -> X) n, map sim (seq 0 n) = map sim (seq 0 n) /\ length (map sim (seq 0 n)) = n /\
  forall i, (i < n)%nat -> nth_error (map sim (seq 0 n)) i = Some (sim i).
Proof.
  intros X sim n. split; [reflexivity|]. split; [rewrite map_length, seq_length; reflexivity|].
  intros i L. rewrite nth_error_map. rewrite nth_error_nth' with (d := O) by (rewrite seq_length; exact L). rewrite seq_nth by exact L. reflexivity.
Qed.

Print Assumptions C14_same_weights.
Print Assumptions C14_same_weights_step.
Print Assumptions C14_run_marker_only_stops.
Print Assumptions C14_run_marker_insertion.
Print Assumptions C14_renumber_order.
Print Assumptions C14_renumber_insert.
Print Assumptions C14_renumber_schedule.
Print Assumptions C14_renumber_pause.
Print Assumptions C14_renumber_unpause.
Print Assumptions C14_renumber_cancel.
Print Assumptions C14_results_in_index_order.
Print Assumptions C14_numbering_independent.
Print Assumptions C14_run_split.

Example C14_nonvacuous :
  let rho := fun a => if a <? 1 then a else a + 100 in
  let e1 := mkEvent 0 8 P_PASS_PART 5 3 (Some tt) None false in
  let e2 := mkEvent 1 8 P_PASS_PART 5 7 (Some tt) None false in
  (forall a b, a < b -> rho a < rho b) /\ ev_ltb e1 e2 = true /\ ev_ltb (ren unit rho e1) (ren unit rho e2) = true /\
  map (e_asset (A:=unit)) (insort (ren unit rho e2) [ren unit rho e1]) = [103; 107].
Proof.
  cbv zeta. split; [|repeat split].
  intros a b L. destruct (Z.ltb_spec a 1); destruct (Z.ltb_spec b 1); lia.
Qed.

(** Non-vacuity of the run-split theorem: a self-rescheduling action (every 8 ticks, priority 32), one pending event at time 0:
    the environment is clean, the action obeys [cmd_ok], running once for 16 + 24 succeeds. *)
Definition c14_exec (a : unit) (w : Z) (t : Z) : Z * list (cmd unit) := (w + 1, [CSched (t + 8) 32 1 tt]).
Definition c14_env : env unit :=
  mkEnv 0 [mkEvent 0%nat 0 32 5 1 (Some tt) None false] [] 1%nat true [] [].
Example C14_split_nonvacuous :
  (forall a w t, Forall (cmd_ok unit) (snd (c14_exec a w t))) /\ clean unit c14_env /\
  exists s, run (fun n => Z.of_nat n) c14_exec (fun _ => false) 100 (16 + 24) (0, c14_env) = Some (Ok s) /\ fst s = 6.
Proof.
  split; [intros; repeat constructor; cbn; unfold P_TERMINATE; lia|]. split.
  - split; cbn.
    + repeat constructor.
    + intros e [<-|[]]. split; [cbn; unfold P_TERMINATE; lia|discriminate].
    + intros e [].
  - eexists. split; [vm_compute; reflexivity|reflexivity].
Qed.

(** * the floor system *)
(** every environment call a floor action makes: scheduled above the end-of-run marker's priority; pause / unpause / cancel only
    of an existing device *)
Theorem C14_floor_calls_well_formed : forall nw fuel uops a w,
  f_out w = [] ->
  Forall (fun c => match c with
                   | FSched _ p _ _ => P_TERMINATE < p
                   | FPause d | FUnpause d | FCancel d => amem d (f_devs (exec_fact fuel uops a w nw)) = true
                   | _ => True end) (f_out (exec_fact fuel uops a w nw)).
Proof. exact exec_fact_cmds_ok. Qed.

(** a run of the floor system can be split: [wgood w] = no pending output and no device numbered -1 (decidable; true of every
    state the driver reaches from a decoded scenario whose ids are positive) *)
Theorem C14_floor_run_split : forall sc ws ws2 fuel a b w (en : env fact) w2 en2,
  wgood w = true -> 0 <= a -> 0 <= b -> clean fact en ->
  run ws (exec_fl sc) fl_wfail fuel (a + b) (w, en) = Some (Ok (w2, en2)) ->
  exists w1 en1,
    run ws (exec_fl sc) fl_wfail (S fuel) a (w, en) = Some (Ok (w1, en1)) /\ now en1 = now en + a /\
    ((forall i, ws2 (S (next_eid en1) + i)%nat = ws (next_eid en1 + i)%nat) ->
     exists en2', run ws2 (exec_fl sc) fl_wfail (S fuel) b (w1, en1) = Some (Ok (w2, en2')) /\
                  eqv fact (queue en2) (queue en2') /\ eqv fact (paused en2) (paused en2') /\ datalog en2' = datalog en2 /\
                  now en2' = now en2 /\ now en2 = now en + (a + b) /\ terminated en2' = true /\ terminated en2 = true).
Proof. exact floor_run_split. Qed.

Print Assumptions C14_floor_calls_well_formed.
Print Assumptions C14_floor_run_split.

(** Non-vacuity: source (cycle 8) -> processor (cycle 24) -> sink, initialised: the world is good, the environment clean, and a
    run for 16 + 24 succeeds (4 parts supplied). *)
Definition c14_world : fw :=
  mkFw [(1, (blank_dev KSource) <| d_down := [2] |> <| d_cycle := 8 |>);
        (2, (blank_dev KProcessor) <| d_up := [1] |> <| d_down := [3] |> <| d_cycle := 24 |>);
        (3, (blank_dev KSink) <| d_up := [2] |>)] [] init_rs [] 10 [] [] 0.
Definition c14_sc : fl_scn := mkFlScn 1 1 c14_world [] [].
Definition c14_s0 := fst (do_fxop c14_sc (c14_world, init_env) FXInit).
Example C14_floor_split_nonvacuous :
  wgood (fst c14_s0) = true /\ clean fact (snd c14_s0) /\
  exists s, run (wgen 1 1) (exec_fl c14_sc) fl_wfail 200 (16 + 24) c14_s0 = Some (Ok s) /\ d_produced (getd (fst s) 1) = 2.
Proof.
  split; [vm_compute; reflexivity|]. split.
  - assert (Q : queue (snd c14_s0) = [mkEvent 0%nat 8 P_FINISH_PROCESSING (wgen 1 1 0) 1 (Some (AFinishCycle 1)) None false]) by (vm_compute; reflexivity).
    assert (P : paused (snd c14_s0) = []) by (vm_compute; reflexivity).
    split; rewrite ?Q, ?P.
    + repeat constructor.
    + intros e [<-|[]]. split; [cbn; unfold P_TERMINATE, P_FINISH_PROCESSING; lia|discriminate].
    + intros e [].
  - eexists. split; [vm_compute; reflexivity|vm_compute; reflexivity].
Qed.
