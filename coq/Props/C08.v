(** C08 — Routing fidelity.  Statements only.
    PARTIAL: proved are the local routing rules (only configured downstream neighbours are offered a part, each once,
    longest-idle first; a gate passes only parts its predicate accepts; a blocked input refuses; the stored part's history
    is the offered history plus the device; identities never change), and — over every exception-free history, also inside a
    run — that a handler, processor or sink which reports a waiting-for-part time (the key of the longest-idle order) holds
    nothing (the invariant the repair of D9 restored); and — in every reachable state of every well-formed scenario — the routing
    history of every part ends with the device that holds it (so, with the extension lemma, histories grow by exactly the traversed
    devices, the last entry always being where the part is).  History without gaps along a whole route,
    group-path matching and sink arrival order over a run are decided by the routing monitor and the lock-step. *)
From Coq Require Import ZArith List Bool Lia Sorting.Permutation Sorting.Sorted.
From RecordUpdate Require Import RecordUpdate.
From SimVerif Require Import Model.Base Model.Env Model.FamEnv Model.RM Model.Maint Model.FloorTypes Model.Floor Model.FamFloor.
From SimVerif Require Import Proofs.RMInv Proofs.EnvInv Proofs.EnvPause Proofs.FloorSteps Proofs.FloorInv Proofs.FloorSys Proofs.FloorProc Proofs.FloorFlow Proofs.FloorRes Proofs.FloorLink Proofs.FloorIdle Proofs.FloorTimer Proofs.FloorWait Proofs.FloorReach Proofs.FloorHist.
Import ListNotations.
Open Scope Z_scope.

Theorem C08_only_configured_neighbours : forall fuel w d, Permutation (sorted_down fuel w d) (d_down (getd w d)).
Proof. exact sorted_down_perm. Qed.

Theorem C08_longest_idle_first : forall fuel w d,
  exists keyed, sorted_down fuel w d = map snd keyed /\ keys_sorted keyed /\
                forall k d', In (k, d') keyed -> k = wait_time fuel w [] d'.
Proof. exact sorted_down_order. Qed.

Theorem C08_gate_refuses : forall f nw w d it,
  f_err w = 0 -> d_kind (getd w d) = KGate -> decide (d_decider (getd w d)) it = false -> give (S f) nw w d it = (w, false).
Proof. exact gate_refuses. Qed.

Theorem C08_blocked_input_refuses : forall f nw w d it,
  f_err w = 0 -> d_block (getd w d) = true -> d_kind (getd w d) <> KGroupOut -> give (S f) nw w d it = (w, false).
Proof. exact blocked_refuses. Qed.

Theorem C08_history_extended_by_device : forall d it,
  p_hist (item_head (item_add_hist d it)) = p_hist (item_head it) ++ [d] /\
  map p_hist (item_parts (item_add_hist d it)) = map (fun p => p_hist p ++ [d]) (item_parts it) /\
  item_id (item_add_hist d it) = item_id it /\ map p_id (item_parts (item_add_hist d it)) = map p_id (item_parts it).
Proof. intros d it. split; [apply add_hist_head|]. split; [apply add_hist_parts|apply add_hist_ids]. Qed.

(** the head of a buffer leaves first (C05): parts cannot overtake inside a buffer *)
Theorem C08_every_change_guarded : forall nw fuel uops a w, R MFull nw w (exec_fact fuel uops a w nw).
Proof. intros. apply R_exec_fact. reflexivity. Qed.

(** a sink's collected list only grows at the end: it is in arrival order *)
Theorem C08_collected_in_arrival_order : forall nw fuel uops a w d x,
  aget d (f_devs w) = Some x ->
  exists x', aget d (f_devs (exec_fact fuel uops a w nw)) = Some x' /\ exists l, collected_ids x' = collected_ids x ++ l.
Proof. exact exec_collected. Qed.

Print Assumptions C08_only_configured_neighbours.
Print Assumptions C08_longest_idle_first.
Print Assumptions C08_gate_refuses.
Print Assumptions C08_blocked_input_refuses.
Print Assumptions C08_history_extended_by_device.
Print Assumptions C08_every_change_guarded.

Print Assumptions C08_collected_in_arrival_order.
Example C08_nonvacuous :
  decide (DQualityGe 8) (ISingle (mkPart 1 0 4 [] [])) = false /\ decide (DQualityLt 8) (ISingle (mkPart 1 0 4 [] [])) = true /\
  p_hist (item_head (item_add_hist 7 (ISingle (mkPart 1 0 4 [3] [])))) = [3; 7].
Proof. repeat split. Qed.

(** * the waiting-for-part time is reported by empty devices only (every exception-free history, also inside a run).
    System initialisation stamps every holder without looking at its slots, so the statement asks that the INITIALISED world is
    right — a computable condition on the scenario, [wait_okb]: every handler, processor or sink that carries a stamp has
    both slots empty.  (It fails only when a Source whose first cycle has length zero is created before the device it feeds;
    the Python code dereferences [env = None] there.) *)
Theorem C08_waiting_device_holds_nothing : forall sc s d z,
  wait_okb (fst (fst (do_fxop sc (fq_world sc, init_env) FXInit))) = true ->
  reach_in sc s ->
  d_kind (getd (fst s) d) = KHandler \/ d_kind (getd (fst s) d) = KProcessor \/ d_kind (getd (fst s) d) = KSink ->
  d_wait_since (getd (fst s) d) = Some z ->
  d_part (getd (fst s) d) = None /\ d_out (getd (fst s) d) = None.
Proof.
  intros sc s d z I0 HR K W. apply (waiting_device_holds_nothing sc s d z I0 HR); [|exact W].
  destruct K as [K|[K|K]]; rewrite K; reflexivity.
Qed.

Theorem C08_wait_okb_def : forall w, wait_okb w = true <->
  forall d x, In (d, x) (f_devs w) -> tracked (d_kind x) = true -> d_wait_since x <> None -> d_part x = None /\ d_out x = None.
Proof.
  intro w. unfold wait_okb. rewrite forallb_forall. split.
  - intros H d x Hin T W. specialize (H _ Hin). cbn [snd] in H. unfold waitb in H. rewrite T in H. cbn in H.
    destruct (d_wait_since x); [|congruence]. cbn in H. apply andb_true_iff in H. destruct H as [A B].
    destruct (d_part x); [discriminate|]. destruct (d_out x); [discriminate|]. auto.
  - intros H [d x] Hin. cbn [snd]. specialize (H d x Hin). unfold waitb. destruct (tracked (d_kind x)); [|reflexivity].
    destruct (d_wait_since x); [|reflexivity]. destruct (H eq_refl ltac:(discriminate)) as [-> ->]. reflexivity.
Qed.

(** ... and the same with a condition on the scenario itself instead of the initialised world: no source's first cycle has length
    zero (then initialisation moves no part and is a strict step as well) *)
Theorem C08_waiting_device_holds_nothing_positive_sources : forall sc s d z,
  (forall d x, aget d (f_devs (fq_world sc)) = Some x -> d_kind x = KSource -> 0 < d_cycle x /\ 0 < d_cycle x + d_offset x) ->
  reach_in sc s ->
  d_kind (getd (fst s) d) = KHandler \/ d_kind (getd (fst s) d) = KProcessor \/ d_kind (getd (fst s) d) = KSink ->
  d_wait_since (getd (fst s) d) = Some z ->
  d_part (getd (fst s) d) = None /\ d_out (getd (fst s) d) = None.
Proof.
  intros sc s d z SP HR K W. apply (waiting_device_holds_nothing_src sc s d z SP HR); [|exact W].
  destruct K as [K|[K|K]]; rewrite K; reflexivity.
Qed.

Print Assumptions C08_waiting_device_holds_nothing.
Print Assumptions C08_waiting_device_holds_nothing_positive_sources.
Print Assumptions C08_wait_okb_def.

(** Non-vacuity: source -> processor (cycle 24) -> sink.  The initialised world passes the condition with processor and sink
    waiting since 0; three events later the processor works on a part and reports no waiting time, the sink still waits. *)
Definition c08_world : fw :=
  mkFw [(1, (blank_dev KSource) <| d_down := [2] |> <| d_cycle := 8 |>);
        (2, (blank_dev KProcessor) <| d_up := [1] |> <| d_down := [3] |> <| d_cycle := 24 |>);
        (3, (blank_dev KSink) <| d_up := [2] |>)] [] init_rs [] 10 [] [] 0.
Definition c08_sc : fl_scn := mkFlScn 1 1 c08_world [] [].
Definition c08_s0 := fst (do_fxop c08_sc (c08_world, init_env) FXInit).
Definition c08_s3 := fx_steps c08_sc 3 c08_s0.
Example C08_waiting_nonvacuous :
  wait_okb (fst c08_s0) = true /\ reach_in c08_sc c08_s3 /\
  map (fun d => d_wait_since (getd (fst c08_s0) d)) [2; 3] = [Some 0; Some 0] /\
  map (fun d => (d_wait_since (getd (fst c08_s3) d), is_none (d_part (getd (fst c08_s3) d)))) [2; 3] = [(None, false); (Some 0, true)].
Proof.
  assert (R0 : reach_ok c08_sc c08_s0).
  { apply ro_init; [vm_compute; reflexivity|]. unfold c08_s0. vm_compute. reflexivity. }
  split; [vm_compute; reflexivity|]. split; [apply reach_ok_in, fx_steps_reach; [exact R0|vm_compute; reflexivity]|].
  split; vm_compute; reflexivity.
Qed.

(** * the routing history of a part ends where the part is: in every reachable state of every well-formed scenario (any operation
    sequence, faults, rewiring, late construction, any weights), a part inside an item that device [d] holds — in its input slot or
    output slot, stored in a buffer, or collected into the batch a batcher is filling — has a history whose last entry is [d].
    With [C08_history_extended_by_device] (the stored item is the offered item with the accepting device appended; flow controllers,
    gates and group paths append themselves when they pass an offer on: definition of [give]) a history is extended by exactly the
    devices a part traverses, one hand-over at a time, and refused offers leave nothing behind (the offered value is immutable in
    the model; the lock-step compares the implementation's mutated-and-restored lists after every event). *)
Theorem C08_held_part_history_ends_with_holder : forall sc s d x it p,
  reach_fl sc s -> aget d (f_devs (fst s)) = Some x ->
  d_part x = Some it \/ d_out x = Some it \/ d_inprog x = Some it \/ (exists t, In (t, it) (d_buf x)) ->
  In p (item_parts it) -> exists h, p_hist p = h ++ [d].
Proof. exact held_part_history_ends_here. Qed.
Print Assumptions C08_held_part_history_ends_with_holder.

Example C08_history_nonvacuous :
  reach_fl c08_sc c08_s3 /\
  option_map (fun it => map p_hist (item_parts it)) (d_part (getd (fst c08_s3) 2)) = Some [[1; 2]].
Proof.
  split; [|vm_compute; reflexivity].
  unfold c08_s3, c08_s0. change (fx_steps c08_sc 3 ?s) with (fst (do_fxop c08_sc (fst (do_fxop c08_sc (fst (do_fxop c08_sc s FXStep)) FXStep)) FXStep)).
  repeat (apply rf_op; [|discriminate]). apply rf_init. vm_compute. reflexivity.
Qed.
