(** C08 — Routing fidelity.  Statements only.
    PARTIAL: proved are the local routing rules (only configured downstream neighbours are offered a part, each once,
    longest-idle first; a gate passes only parts its predicate accepts; a blocked input refuses; the stored part's history
    is the offered history plus the device; identities never change).  History without gaps along a whole route,
    group-path matching and sink arrival order over a run are decided by the routing monitor and the lock-step. *)
From Coq Require Import ZArith List Bool Lia Sorting.Permutation Sorting.Sorted.
From RecordUpdate Require Import RecordUpdate.
From SimVerif Require Import Model.Base Model.Env Model.FamEnv Model.RM Model.Maint Model.FloorTypes Model.Floor Model.FamFloor.
From SimVerif Require Import Proofs.RMInv Proofs.EnvInv Proofs.EnvPause Proofs.FloorSteps Proofs.FloorInv Proofs.FloorSys Proofs.FloorProc Proofs.FloorFlow Proofs.FloorRes.
Import ListNotations.
Open Scope Z_scope.

Theorem C08_only_configured_neighbours : forall fuel w d, Permutation (sorted_down fuel w d) (d_down (getd w d)).
Proof. exact sorted_down_perm. Qed.

Theorem C08_longest_idle_first : forall fuel w d,
  exists keyed, sorted_down fuel w d = map snd keyed /\ keys_sorted keyed /\
                forall k d', In (k, d') keyed -> k = wait_time fuel w [] d'.
Proof. exact sorted_down_order. Qed.

Theorem C08_gate_refuses : forall f nw w d it,
  f_err w = 0 -> d_kind (getd w d) = KGate -> decide (d_decider (getd w d)) it = false -> give (S f) nw w d it = (w, false).
Proof. exact gate_refuses. Qed.

Theorem C08_blocked_input_refuses : forall f nw w d it,
  f_err w = 0 -> d_block (getd w d) = true -> d_kind (getd w d) <> KGroupOut -> give (S f) nw w d it = (w, false).
Proof. exact blocked_refuses. Qed.

Theorem C08_history_extended_by_device : forall d it,
  p_hist (item_head (item_add_hist d it)) = p_hist (item_head it) ++ [d] /\
  map p_hist (item_parts (item_add_hist d it)) = map (fun p => p_hist p ++ [d]) (item_parts it) /\
  item_id (item_add_hist d it) = item_id it /\ map p_id (item_parts (item_add_hist d it)) = map p_id (item_parts it).
Proof. intros d it. split; [apply add_hist_head|]. split; [apply add_hist_parts|apply add_hist_ids]. Qed.

(** the head of a buffer leaves first (C05): parts cannot overtake inside a buffer *)
Theorem C08_every_change_guarded : forall nw fuel uops a w, R MFull nw w (exec_fact fuel uops a w nw).
Proof. intros. apply R_exec_fact. reflexivity. Qed.

(** a sink's collected list only grows at the end: it is in arrival order *)
Theorem C08_collected_in_arrival_order : forall nw fuel uops a w d x,
  aget d (f_devs w) = Some x ->
  exists x', aget d (f_devs (exec_fact fuel uops a w nw)) = Some x' /\ exists l, collected_ids x' = collected_ids x ++ l.
Proof. exact exec_collected. Qed.

Print Assumptions C08_only_configured_neighbours.
Print Assumptions C08_longest_idle_first.
Print Assumptions C08_gate_refuses.
Print Assumptions C08_blocked_input_refuses.
Print Assumptions C08_history_extended_by_device.
Print Assumptions C08_every_change_guarded.

Print Assumptions C08_collected_in_arrival_order.
Example C08_nonvacuous :
  decide (DQualityGe 8) (ISingle (mkPart 1 0 4 [] [])) = false /\ decide (DQualityLt 8) (ISingle (mkPart 1 0 4 [] [])) = true /\
  p_hist (item_head (item_add_hist 7 (ISingle (mkPart 1 0 4 [3] [])))) = [3; 7].
Proof. repeat split. Qed.
