(** C20 — System lifecycle: registration, single initialisation, late-created assets.  Statements only. *)
From Coq Require Import String ZArith List Bool Lia.
From SimVerif Require Import Model.Base Model.Sys Model.Life Proofs.SysInv Proofs.LifeEq.
Import ListNotations.
Open Scope Z_scope.

(** the registry invariant (bounded registrations, initialised at most once, the active system is the most
    recently created one, no asset twice in one system) holds after every sequence of operations *)
Theorem C20_invariant_initial : RegInv init_reg.
Proof. exact RegInv_init. Qed.
Theorem C20_invariant_step : forall g o, RegInv g -> RegInv (run_sop g o).
Proof. exact run_sop_inv. Qed.
Theorem C20_invariant_always : forall os, RegInv (fold_left run_sop os init_reg).
Proof.
  intro os. assert (G : forall g, RegInv g -> RegInv (fold_left run_sop os g)).
  { induction os as [|o os IH]; intros g I; cbn; [exact I|apply IH, run_sop_inv, I]. }
  apply G, RegInv_init.
Qed.

(** initialised at most once, ever *)
Theorem C20_initialised_at_most_once : forall g o a, RegInv g -> nth_error (g_assets g) o = Some a -> (a_inits a <= 1)%nat.
Proof. intros g o a I H. pose proof (ri_inits g I o a H) as X. unfold inits_ok in X. destruct (a_env a); lia. Qed.

(** every non-transitory asset registers with the most recently created system and with no other; if that
    system is already running, it is initialised on the spot, exactly once, in that system's environment *)
Theorem C20_registers_with_latest : forall k n g i s,
  RegInv g -> g_err g = 0 -> g_active g = Some i -> nth_error (g_systems g) i = Some s ->
  let g' := new_asset k n false g in let o := length (g_assets g) in
  g_err g' = 0 /\
  nth_error (g_systems g') i = Some (mkSys (s_assets s ++ [o]) (s_inited s)) /\
  (forall j, j <> i -> nth_error (g_systems g') j = nth_error (g_systems g) j) /\
  nth_error (g_assets g') o = Some (if s_inited s then mkAsset k n 1 (Some i) else mkAsset k n 0 None) /\
  (forall o', o' <> o -> nth_error (g_assets g') o' = nth_error (g_assets g) o').
Proof. exact new_asset_registers. Qed.
Theorem C20_active_is_latest : forall g, RegInv g ->
  g_active g = match g_systems g with [] => None | _ => Some (length (g_systems g) - 1)%nat end.
Proof. intros g I. exact (ri_active g I). Qed.
Theorem C20_transitory_not_registered : forall k n g, g_systems (new_asset k n true g) = g_systems g.
Proof. exact transitory_not_registered. Qed.
Theorem C20_no_system_no_asset : forall k n g, g_active g = None -> new_asset k n false g = fail_r g S_RUNTIME.
Proof. exact new_asset_no_system. Qed.

(** the first simulate initialises every registered asset exactly once; continuing changes nothing;
    only the most recently created system can simulate *)
Theorem C20_first_simulate_initialises : forall i g s,
  RegInv g -> g_err g = 0 -> g_active g = Some i -> nth_error (g_systems g) i = Some s -> s_inited s = false ->
  g_err (simulate i g) = 0 ->
  (exists s', nth_error (g_systems (simulate i g)) i = Some s' /\ s_inited s' = true /\ s_assets s' = s_assets s) /\
  (forall o a, In o (s_assets s) -> nth_error (g_assets g) o = Some a ->
     a_inits a = 0%nat /\ nth_error (g_assets (simulate i g)) o = Some (mkAsset (a_kind a) (a_name a) 1 (Some i))) /\
  (forall o, ~ In o (s_assets s) -> nth_error (g_assets (simulate i g)) o = nth_error (g_assets g) o).
Proof. exact simulate_initialises. Qed.
Theorem C20_continuing_never_reinitialises : forall i g s,
  g_active g = Some i -> nth_error (g_systems g) i = Some s -> s_inited s = true -> simulate i g = g.
Proof. exact simulate_again. Qed.
Theorem C20_only_latest_simulates : forall i g, g_active g <> Some i -> simulate i g = fail_r g S_RUNTIME.
Proof. exact simulate_inactive. Qed.

(** look-up: exactly the registered assets matching all given filters, in registration order *)
Theorem C20_find : forall i n d t sb g s,
  nth_error (g_systems g) i = Some s ->
  find_assets i n d t sb g = filter (matches g n d t sb) (s_assets s) /\
  forall o, In o (find_assets i n d t sb g) <-> In o (s_assets s) /\ matches g n d t sb o = true.
Proof. exact find_assets_spec. Qed.

(** an asset created while the simulation is in progress goes through the same operations, in the same order, as
    the same asset created before the start, for every class whose creation ends with the registration
    (Tie/TieSys.v: all asset classes of /repo as they are now) *)
Theorem C20_late_equals_early : forall tbl meta c,
  late_safe tbl meta c = true -> effects (late tbl meta c) = effects (early tbl meta c).
Proof. exact late_eq_early. Qed.
Theorem C20_late_equals_early_all : forall tbl meta,
  all_late_safe tbl meta = true ->
  forall r, In r tbl -> is_asset tbl r = true -> effects (late tbl meta (c_name r)) = effects (early tbl meta (c_name r)).
Proof. exact all_late_safe_spec. Qed.

Print Assumptions C20_invariant_initial.
Print Assumptions C20_invariant_step.
Print Assumptions C20_invariant_always.
Print Assumptions C20_initialised_at_most_once.
Print Assumptions C20_registers_with_latest.
Print Assumptions C20_active_is_latest.
Print Assumptions C20_transitory_not_registered.
Print Assumptions C20_no_system_no_asset.
Print Assumptions C20_first_simulate_initialises.
Print Assumptions C20_continuing_never_reinitialises.
Print Assumptions C20_only_latest_simulates.
Print Assumptions C20_find.
Print Assumptions C20_late_equals_early.
Print Assumptions C20_late_equals_early_all.

(** Non-vacuity: two systems, an asset before and one after the start of the second. *)
Example C20_nonvacuous :
  let g := fold_left run_sop [SNew; SAsset 5 0 false; SNew; SAsset 3 1 false; SSim 1; SAsset 6 2 false; SSim 0; SFind 1 (-1) (-1) (-1) 2] init_reg in
  map s_assets (g_systems g) = [[0]; [1; 2]]%nat /\ map a_inits (g_assets g) = [0; 1; 1]%nat /\ g_found g = [1; 2]%nat /\
  g_err (run_sop g (SSim 0)) = S_RUNTIME.
Proof. vm_compute. repeat split. Qed.
