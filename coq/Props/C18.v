(** C18 — Action schedules follow their timetable.  Statements only. *)
From Coq Require Import ZArith List Bool Lia Sorting.Permutation.
From SimVerif Require Import Model.Base Model.Env Model.FamEnv Model.Sched Model.FamSched.
From SimVerif Require Import Proofs.EnvInv Proofs.SchedInv Proofs.SchedSys.
Import ListNotations.
Open Scope Z_scope.

(** register / unregister: insertion-ordered dictionary; redundant calls change nothing and say so *)
Theorem C18_register : forall obj ov s,
  snd (s_register obj ov s) = negb (amem obj (s_reg s)) /\
  (amem obj (s_reg s) = true -> fst (s_register obj ov s) = s) /\
  (amem obj (s_reg s) = false -> s_reg (fst (s_register obj ov s)) = s_reg s ++ [(obj, ov)]).
Proof. exact register_spec. Qed.
Theorem C18_unregister : forall obj s,
  snd (s_unregister obj s) = amem obj (s_reg s) /\
  (amem obj (s_reg s) = false -> fst (s_unregister obj s) = s) /\
  (amem obj (s_reg s) = true -> s_reg (fst (s_unregister obj s)) = adel obj (s_reg s)).
Proof. exact unregister_spec. Qed.

(** at every state change the action (default or override) is invoked exactly once for each
    currently registered object, in registration order, with (object, time, new state); one
    record; one next transition after the new state's duration; after the end of a non-cyclic
    timetable nothing happens any more *)
Theorem C18_state_change : forall nw s,
  let s' := s_update nw true s in
  let n := length (s_schedule s) in
  (stops s = true ->
     s_state s' = s_state s /\ s_calls s' = s_calls s /\ s_out s' = s_out s /\ s_count s' = s_count s /\ s_reg s' = s_reg s) /\
  (stops s = false ->
     let idx := Nat.modulo (S (s_index s)) n in
     s_index s' = idx /\ s_state s' = Some (st_of s idx) /\ s_count s' = S (s_count s) /\ s_reg s' = s_reg s /\
     s_calls s' = rev (map (fun r => (fst r, snd r, nw, st_of s idx)) (s_reg s)) ++ s_calls s /\
     s_out s' = SSched (nw + dur_of s idx) :: SData [nw; st_of s idx] :: s_out s).
Proof. exact update_spec. Qed.

(** once at start-up *)
Theorem C18_startup : forall nw s,
  let s' := s_update nw false s in
  s_index s' = s_index s /\ s_state s' = Some (st_of s (s_index s)) /\ s_count s' = S (s_count s) /\ s_reg s' = s_reg s /\
  s_calls s' = rev (map (fun r => (fst r, snd r, nw, st_of s (s_index s))) (s_reg s)) ++ s_calls s /\
  s_out s' = SSched (nw + dur_of s (s_index s)) :: SData [nw; st_of s (s_index s)] :: s_out s.
Proof. exact init_update_spec. Qed.

(** the timetable: after k state changes (performed when scheduled, with any register / unregister
    calls in between) the state is timetable entry k-1 (cyclically, or literally for a non-cyclic
    schedule, which never exceeds its length) and the next change is due at
    t0 + sum of the durations of the first k states *)
Theorem C18_timetable : forall s0 t0 k s t,
  s_index s0 = O -> (0 < length (s_schedule s0))%nat ->
  chain s0 t0 k s t ->
  let n := length (s_schedule s0) in
  let c := s_cyclic s0 in
  (1 <= k)%nat /\
  s_schedule s = s_schedule s0 /\ s_cyclic s = c /\
  s_index s = sidx c n (k - 1) /\
  s_state s = Some (st_of s0 (sidx c n (k - 1))) /\
  t = T (s_schedule s0) c t0 k /\
  (c = false -> (k <= n)%nat).
Proof. exact chain_timetable. Qed.

(** a cyclic schedule repeats with period equal to the total duration *)
Theorem C18_period : forall sched t0, (0 < length sched)%nat ->
  forall k, T sched true t0 (k + length sched) = T sched true t0 k + total sched.
Proof. exact T_cyclic_period. Qed.

(** system level: after every executed event there is exactly one pending transition event, due
    at the prescribed time, until a non-cyclic timetable has ended (then none); registrations
    issued from other events are affected only from the next change on (they never touch the
    pending transition) *)
Theorem C18_system_step : forall ws s0 t0,
  s_index s0 = O -> (0 < length (s_schedule s0))%nat ->
  forall s s', SysS s0 t0 s -> step ws exec_sc (fun _ => false) s = Some (Ok s') -> SysS s0 t0 s'.
Proof. exact step_SysS. Qed.

Theorem C18_system_timetable : forall s0 t0,
  s_index s0 = O -> (0 < length (s_schedule s0))%nat ->
  forall (w : sw) (en : env sfact), SysS s0 t0 (w, en) ->
  (exists k, (1 <= k)%nat /\
     s_state (w_s w) = Some (st_of s0 (sidx (s_cyclic s0) (length (s_schedule s0)) (k - 1))) /\
     flat_map upd_time (queue en) = [T (s_schedule s0) (s_cyclic s0) t0 k]) \/
  (s_cyclic (w_s w) = false /\ flat_map upd_time (queue en) = []).
Proof. exact SysS_timetable. Qed.

Print Assumptions C18_register.
Print Assumptions C18_unregister.
Print Assumptions C18_state_change.
Print Assumptions C18_startup.
Print Assumptions C18_timetable.
Print Assumptions C18_period.
Print Assumptions C18_system_step.
Print Assumptions C18_system_timetable.

(** Non-vacuity: a 3-state cyclic timetable: the 5th change is due at 0 + (8+4+12) + 8 + 4 = 36 and enters state index 1. *)
Example C18_nonvacuous :
  let sched := [(8, 10); (4, 11); (12, 12)] in
  T sched true 0 5 = 36 /\ sidx true 3 4 = 1%nat /\
  s_state (s_update 36 true (mkS sched true 0 (Some 10) [(7, None)] [] 4 [])) = Some 11.
Proof. vm_compute. repeat split. Qed.
