(** C06 — Cycle times are honoured exactly, one part at a time, across interruptions.  Statements only.
    PARTIAL: proved are the ingredients (timer = acceptance time + cycle in effect, one-shot offset floored at zero,
    a FINISH event finds exactly its part, shutdown pauses / failure cancels the device's events, a resumed event keeps
    its remaining delay (C07), cancelled events never run (C07), one part at a time (C02)); their composition into
    "released after exactly cycle time of operational time" along a whole run is decided on the implementation by the
    cycle-time monitor and the lock-step, not yet by one theorem. *)
From Coq Require Import ZArith List Bool Lia Sorting.Permutation Sorting.Sorted.
From RecordUpdate Require Import RecordUpdate.
From SimVerif Require Import Model.Base Model.Env Model.FamEnv Model.RM Model.Maint Model.FloorTypes Model.Floor Model.FamFloor.
From SimVerif Require Import Proofs.RMInv Proofs.EnvInv Proofs.EnvPause Proofs.FloorSteps Proofs.FloorInv Proofs.FloorSys Proofs.FloorProc Proofs.FloorFlow Proofs.FloorRes.
Import ListNotations.
Open Scope Z_scope.

(** the timer set when a part is accepted: now + max(0, cycle time + one-shot offset), as the device's own event *)
Theorem C06_timer : forall fuel nw w d,
  0 < next_cycle (getd w d) ->
  sched_finish fuel nw w d =
  emitf (updd w d t_reset_offset) (FSched (nw + next_cycle (getd w d)) P_FINISH_PROCESSING d (AFinishCycle d)).
Proof. exact sched_finish_timer. Qed.
Theorem C06_zero_cycle_finishes_now : forall fuel nw w d,
  next_cycle (getd w d) = 0 -> sched_finish fuel nw w d = finish_cycle fuel nw (updd w d t_reset_offset) d.
Proof. exact sched_finish_now. Qed.
Theorem C06_floored_at_zero : forall x, 0 <= next_cycle x /\ next_cycle x = Z.max 0 (d_cycle x + d_offset x).
Proof. intro x. split; [apply next_cycle_nonneg|reflexivity]. Qed.
Theorem C06_offset_one_shot : forall fuel nw w d,
  amem d (f_devs w) = true -> 0 < next_cycle (getd w d) ->
  d_offset (getd (sched_finish fuel nw w d) d) = 0 /\ d_cycle (getd (sched_finish fuel nw w d) d) = d_cycle (getd w d).
Proof. exact offset_consumed. Qed.

(** a FINISH event finishes exactly the part in process, once, and only on an operational device *)
Theorem C06_finish_needs_its_part : forall fuel nw w d,
  single_slot (d_kind (getd w d)) = true ->
  (d_part (getd w d) = None \/ d_out (getd w d) <> None \/ operational (getd w d) = false) ->
  finish_cycle fuel nw w d = failf w E_ASSERT.
Proof. exact finish_cycle_needs. Qed.

(** a shutdown pauses the device's pending events, a failure cancels them (also when it arrives during a shutdown) *)
Theorem C06_shutdown_pauses_or_cancels : forall nw isf lost w d,
  d_kind (getd w d) = KProcessor -> d_shut (getd w d) = false ->
  exists l, f_out (shutdown nw isf lost w d) = l ++ (if isf then FCancel d else FPause d) :: f_out w.
Proof. exact shutdown_cmd. Qed.
Theorem C06_failure_during_shutdown_cancels : forall nw lost w d,
  d_kind (getd w d) = KProcessor -> d_shut (getd w d) = true ->
  exists l, f_out (shutdown nw true lost w d) = l ++ FCancel d :: f_out w.
Proof. exact shutdown_failure_while_shut. Qed.

(** time spent shut down is added on top: a resumed event keeps its remaining delay *)
Theorem C06_pause_adds_downtime : forall t (e : event fact) p,
  e_paused_at e = Some p -> e_time (resumed t e) = e_time e + (t - p).
Proof. intros t e p H. exact (proj2 (resumed_delay fact t e p H)). Qed.

(** the finished part is the accepted part; a device holds one part at a time *)
Theorem C06_one_part_at_a_time : forall nw fuel uops a w, DevInv SlotInv w -> DevInv SlotInv (exec_fact fuel uops a w nw).
Proof. intros. apply exec_DevInv; [apply stable_SlotInv|assumption]. Qed.

Print Assumptions C06_timer.
Print Assumptions C06_zero_cycle_finishes_now.
Print Assumptions C06_floored_at_zero.
Print Assumptions C06_offset_one_shot.
Print Assumptions C06_finish_needs_its_part.
Print Assumptions C06_shutdown_pauses_or_cancels.
Print Assumptions C06_failure_during_shutdown_cancels.
Print Assumptions C06_pause_adds_downtime.
Print Assumptions C06_one_part_at_a_time.

Example C06_nonvacuous :
  let x := (blank_dev KHandler) <| d_cycle := 24 |> <| d_offset := -8 |> in
  next_cycle x = 16 /\ next_cycle (x <| d_offset := -40 |>) = 0.
Proof. split; reflexivity. Qed.
