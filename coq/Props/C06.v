(** C06 — Cycle times are honoured exactly, one part at a time, across interruptions.  Statements only.
    Proved: the ingredients (timer = acceptance time + cycle in effect, one-shot offset floored at zero, a FINISH event finds
    exactly its part, shutdown pauses / failure cancels the device's events, a resumed event keeps its remaining delay (C07),
    cancelled events never run (C07), one part at a time (C02)), and at the level of the event queue (Proofs/FloorTimer.v,
    FloorTimerInv.v), for every state reached without a Python exception, including every state inside a run: **a handler,
    processor or sink has exactly one uncancelled FINISH_PROCESSING event of its own (pending, or paused) while a part is in
    process, and none otherwise** ([C06_one_timer_per_part]) — no part is left without its timer, no stale timer survives a
    failure (the defect D4), nothing is finished twice; the timer that fires is the one set at acceptance.
    PARTIAL: the arithmetic composition "released after exactly the cycle time of operational time" along a whole run (timer value
    at acceptance + the pause/unpause shifts of C07 + the unique timer) is not one theorem; it is decided on the implementation
    by the cycle-time monitor and the lock-step. *)
From Coq Require Import ZArith List Bool Lia Sorting.Permutation Sorting.Sorted.
From RecordUpdate Require Import RecordUpdate.
From SimVerif Require Import Model.Base Model.Env Model.FamEnv Model.RM Model.Maint Model.FloorTypes Model.Floor Model.FamFloor.
From SimVerif Require Import Proofs.RMInv Proofs.EnvInv Proofs.EnvPause Proofs.EnvRem Proofs.FloorSteps Proofs.FloorInv Proofs.FloorSys Proofs.FloorProc Proofs.FloorFlow Proofs.FloorRes Proofs.FloorLink Proofs.FloorIdle Proofs.FloorLogInv Proofs.FloorTimer Proofs.FloorTimerInv Proofs.EnvOpTime Proofs.FloorOpTime.
Import ListNotations.
Open Scope Z_scope.

(** the timer set when a part is accepted: now + max(0, cycle time + one-shot offset), as the device's own event *)
Theorem C06_timer : forall fuel nw w d,
  0 < next_cycle (getd w d) ->
  sched_finish fuel nw w d =
  emitf (updd w d t_reset_offset) (FSched (nw + next_cycle (getd w d)) P_FINISH_PROCESSING d (AFinishCycle d)).
Proof. exact sched_finish_timer. Qed.
Theorem C06_zero_cycle_finishes_now : forall fuel nw w d,
  next_cycle (getd w d) = 0 -> sched_finish fuel nw w d = finish_cycle fuel nw (updd w d t_reset_offset) d.
Proof. exact sched_finish_now. Qed.
Theorem C06_floored_at_zero : forall x, 0 <= next_cycle x /\ next_cycle x = Z.max 0 (d_cycle x + d_offset x).
Proof. intro x. split; [apply next_cycle_nonneg|reflexivity]. Qed.
Theorem C06_offset_one_shot : forall fuel nw w d,
  amem d (f_devs w) = true -> 0 < next_cycle (getd w d) ->
  d_offset (getd (sched_finish fuel nw w d) d) = 0 /\ d_cycle (getd (sched_finish fuel nw w d) d) = d_cycle (getd w d).
Proof. exact offset_consumed. Qed.

(** a FINISH event finishes exactly the part in process, once, and only on an operational device *)
Theorem C06_finish_needs_its_part : forall fuel nw w d,
  single_slot (d_kind (getd w d)) = true ->
  (d_part (getd w d) = None \/ d_out (getd w d) <> None \/ operational (getd w d) = false) ->
  finish_cycle fuel nw w d = failf w E_ASSERT.
Proof. exact finish_cycle_needs. Qed.

(** a shutdown pauses the device's pending events, a failure cancels them (also when it arrives during a shutdown) *)
Theorem C06_shutdown_pauses_or_cancels : forall nw isf lost w d,
  d_kind (getd w d) = KProcessor -> d_shut (getd w d) = false ->
  exists l, f_out (shutdown nw isf lost w d) = l ++ (if isf then FCancel d else FPause d) :: f_out w.
Proof. exact shutdown_cmd. Qed.
Theorem C06_failure_during_shutdown_cancels : forall nw lost w d,
  d_kind (getd w d) = KProcessor -> d_shut (getd w d) = true ->
  exists l, f_out (shutdown nw true lost w d) = l ++ FCancel d :: f_out w.
Proof. exact shutdown_failure_while_shut. Qed.

(** time spent shut down is added on top: a resumed event keeps its remaining delay *)
Theorem C06_pause_adds_downtime : forall t (e : event fact) p,
  e_paused_at e = Some p -> e_time (resumed t e) = e_time e + (t - p).
Proof. intros t e p H. exact (proj2 (resumed_delay fact t e p H)). Qed.

(** the finished part is the accepted part; a device holds one part at a time *)
Theorem C06_one_part_at_a_time : forall nw fuel uops a w, DevInv SlotInv w -> DevInv SlotInv (exec_fact fuel uops a w nw).
Proof. intros. apply exec_DevInv; [apply stable_SlotInv|assumption]. Qed.

Print Assumptions C06_timer.
Print Assumptions C06_zero_cycle_finishes_now.
Print Assumptions C06_floored_at_zero.
Print Assumptions C06_offset_one_shot.
Print Assumptions C06_finish_needs_its_part.
Print Assumptions C06_shutdown_pauses_or_cancels.
Print Assumptions C06_failure_during_shutdown_cancels.
Print Assumptions C06_pause_adds_downtime.
Print Assumptions C06_one_part_at_a_time.

Example C06_nonvacuous :
  let x := (blank_dev KHandler) <| d_cycle := 24 |> <| d_offset := -8 |> in
  next_cycle x = 16 /\ next_cycle (x <| d_offset := -40 |>) = 0.
Proof. split; reflexivity. Qed.

(** * queue level: one live timer per part in process *)
Theorem C06_one_timer_per_part : forall sc s d,
  f_out (fq_world sc) = [] -> reach_in sc s ->
  d_kind (getd (fst s) d) = KHandler \/ d_kind (getd (fst s) d) = KProcessor \/ d_kind (getd (fst s) d) = KSink ->
  Z.of_nat (length (filter (isfin d) (queue (snd s)))) + Z.of_nat (length (filter (isfin d) (paused (snd s)))) =
  match d_part (getd (fst s) d) with Some _ => 1 | None => 0 end.
Proof.
  intros sc s d O HR K. pose proof (one_timer_per_part sc s d O HR) as H. unfold cnt, cntl, busy in H.
  destruct (d_part (getd (fst s) d)); apply H; destruct K as [K|[K|K]]; rewrite K; reflexivity.
Qed.

(** [isfin d e]: e is an uncancelled event of asset d whose action is the end of d's cycle *)
Theorem C06_isfin_def : forall d (e : event fact),
  isfin d e = true <-> e_asset e = d /\ e_cancelled e = false /\ e_act e = Some (AFinishCycle d).
Proof.
  intros d e. unfold isfin. split.
  - intro H. apply andb_true_iff in H. destruct H as [H A]. apply andb_true_iff in H. destruct H as [H1 H2].
    apply Z.eqb_eq in H1. apply negb_true_iff in H2. destruct (e_act e) as [[d'| | | | | |]|]; try discriminate. apply Z.eqb_eq in A. subst. auto.
  - intros [A [B C]]. rewrite A, B, C, Z.eqb_refl. reflexivity.
Qed.

(** the premise on the initial world holds for every decoded scenario *)
Theorem C06_decoded_scenarios_start_clean : forall l, f_out (fq_world (decode_fl_scn l)) = [].
Proof. exact decoded_no_pending_output. Qed.

(** the end of a cycle puts its own device right: its timer has just been taken off the queue *)
Theorem C06_cycle_end_settles_its_device : forall ws nw skip en0 fuel w d,
  tracked (d_kind (getd w d)) = true -> LT ws (fun d' => skip d' \/ d' = d) en0 w ->
  (okf w = true -> forall en, venv ws en0 w = Ok en -> cnt d en = 0) ->
  LT ws skip en0 (finish_cycle fuel nw w d).
Proof. exact finish_fix. Qed.

(** * the timer counts operational time (the whole floor system, any scenario, any weights).
    By [C06_one_timer_per_part] a part in process has exactly one live FINISH event of its device; by [C06_timer] it is created at
    acceptance with delay max(0, cycle time + one-shot offset); a shutdown pauses it and a restore resumes it
    ([C06_shutdown_pauses_or_cancels]).  Here: over one step of the system, whatever happens in it, the remaining delay of that
    event — (its time - the clock) while it is pending, (its time - the instant of the pause) while it is paused — goes down by
    exactly the elapsed time if it was pending (the device was operational) and stays the same if it was paused (the device was
    shut down); it is never changed otherwise as long as the event is not cancelled (a failure); and the event fires exactly when
    the clock reaches its time.  So a part is released after exactly its cycle time of operational time: time spent shut down is
    added on top, never lost; nothing finishes early or late. *)
Theorem C06_pending_timer_loses_exactly_the_elapsed_time : forall sc ws w (en : env fact) e0 q w' en' e,
  queue en = e0 :: q -> step ws (exec_fl sc) fl_wfail (w, en) = Some (Ok (w', en')) ->
  In e q -> e_cancelled e = false ->
  Rem fact en' (e_id e) ((e_time e - now en) - (now en' - now en)) \/ Cancelled fact en' (e_id e).
Proof. intros sc ws. exact (step_pending fact fw ws (exec_fl sc) fl_wfail). Qed.
Theorem C06_paused_timer_loses_nothing : forall sc ws w (en : env fact) w' en' e p,
  step ws (exec_fl sc) fl_wfail (w, en) = Some (Ok (w', en')) ->
  In e (paused en) -> e_cancelled e = false -> e_paused_at e = Some p ->
  Rem fact en' (e_id e) (e_time e - p) \/ Cancelled fact en' (e_id e).
Proof. intros sc ws. exact (step_paused fact fw ws (exec_fl sc) fl_wfail). Qed.
Theorem C06_timer_fires_when_due : forall sc ws w (en : env fact) e0 q w' en',
  queue en = e0 :: q -> step ws (exec_fl sc) fl_wfail (w, en) = Some (Ok (w', en')) -> now en' = e_time e0.
Proof. intros sc ws. exact (step_dispatch_time fact fw ws (exec_fl sc) fl_wfail). Qed.

(** ... composed over whole histories (Proofs/EnvOpTime.v, FloorOpTime.v): a timer that has r left at some reachable point and fires at a
    later one did so after the clock advanced by exactly r over the stretches during which it was not paused — shutdowns of any number
    and length in between postpone the end of the cycle by exactly their length; [fxop_chain]: every operation of the floor driver
    (executed event, call between events, user event, device constructed late) is a step of such a history *)
Theorem C06_timer_fires_after_exactly_its_remaining_time_unpaused : forall sc i s w1 en1 t r e0 q s2,
  reach_in sc s -> Rem fact (snd s) i r ->
  chain fact fw (wgen (fq_seed sc) (fq_mod sc)) (exec_fl sc) fl_wfail i s (w1, en1) t ->
  queue en1 = e0 :: q -> e_id e0 = i -> e_cancelled e0 = false ->
  step (wgen (fq_seed sc) (fq_mod sc)) (exec_fl sc) fl_wfail (w1, en1) = Some (Ok s2) ->
  t + (now (snd s2) - now en1) = r /\ pendingb fact en1 i = true.
Proof.
  intros sc i s w1 en1 t r e0 q s2 HR. destruct (reach_in_JS sc s HR) as [_ [I _]].
  exact (fires_after_exactly_its_delay fact fw _ (exec_fl sc) fl_wfail i s w1 en1 t r e0 q s2 I).
Qed.
Theorem C06_floor_operations_are_history_steps : forall sc s x s' i s2 t,
  x <> FXInit -> (forall d, x <> FXRun d) -> do_fxop sc s x = (s', 0) ->
  chain fact fw (wgen (fq_seed sc) (fq_mod sc)) (exec_fl sc) fl_wfail i s' s2 t ->
  chain fact fw (wgen (fq_seed sc) (fq_mod sc)) (exec_fl sc) fl_wfail i s s2
        ((match x with FXStep => if pendingb fact (snd s) i then now (snd s') - now (snd s) else 0 | _ => 0 end) + t).
Proof. exact fxop_chain. Qed.
Print Assumptions C06_timer_fires_after_exactly_its_remaining_time_unpaused.
Print Assumptions C06_floor_operations_are_history_steps.
Print Assumptions C06_pending_timer_loses_exactly_the_elapsed_time.
Print Assumptions C06_paused_timer_loses_nothing.
Print Assumptions C06_timer_fires_when_due.

Print Assumptions C06_one_timer_per_part.
Print Assumptions C06_isfin_def.
Print Assumptions C06_cycle_end_settles_its_device.

(** Non-vacuity (the history of defect D4): source -> processor (cycle 24) -> sink.  After three events the processor works on a
    part, its timer (time 32) pending; it is shut down: the timer is paused; it fails while shut down: the part is lost and the
    paused timer is cancelled — no live timer is left. *)
Definition c06_world : fw :=
  mkFw [(1, (blank_dev KSource) <| d_down := [2] |> <| d_cycle := 8 |>);
        (2, (blank_dev KProcessor) <| d_up := [1] |> <| d_down := [3] |> <| d_cycle := 24 |>);
        (3, (blank_dev KSink) <| d_up := [2] |>)] [] init_rs [] 10 [] [] 0.
Definition c06_sc : fl_scn := mkFlScn 1 1 c06_world [] [].
Definition c06_s0 := fst (do_fxop c06_sc (c06_world, init_env) FXInit).
Definition c06_s3 := fx_steps c06_sc 3 c06_s0.
Definition c06_sd := fst (do_fxop c06_sc c06_s3 (FXNow (UShutdown 2))).
Definition c06_sf := fst (do_fxop c06_sc c06_sd (FXNow (UFailAt 2 16))).
Definition c06_sg := fx_steps c06_sc 2 c06_sf.
Example C06_timer_nonvacuous :
  reach_in c06_sc c06_s3 /\ reach_in c06_sc c06_sd /\ reach_in c06_sc c06_sg /\
  (busy (getd (fst c06_s3) 2), cntl 2 (queue (snd c06_s3)), cntl 2 (paused (snd c06_s3))) = (true, 1, 0) /\
  (busy (getd (fst c06_sd) 2), cntl 2 (queue (snd c06_sd)), cntl 2 (paused (snd c06_sd))) = (true, 0, 1) /\
  (busy (getd (fst c06_sg) 2), cntl 2 (queue (snd c06_sg)), cntl 2 (paused (snd c06_sg))) = (false, 0, 0) /\
  map (fun e => (e_time e, e_cancelled e)) (paused (snd c06_sg)) = [(32, true)].
Proof.
  assert (R0 : reach_ok c06_sc c06_s0).
  { apply ro_init; [vm_compute; reflexivity|]. unfold c06_s0. vm_compute. reflexivity. }
  assert (R3 : reach_ok c06_sc c06_s3) by (apply fx_steps_reach; [exact R0|vm_compute; reflexivity]).
  assert (Rd : reach_ok c06_sc c06_sd).
  { apply (ro_op c06_sc c06_s3 (FXNow (UShutdown 2))); [exact R3|discriminate|]. unfold c06_sd. vm_compute. reflexivity. }
  assert (Rf : reach_ok c06_sc c06_sf).
  { apply (ro_op c06_sc c06_sd (FXNow (UFailAt 2 16))); [exact Rd|discriminate|]. unfold c06_sf. vm_compute. reflexivity. }
  split; [apply reach_ok_in, R3|]. split; [apply reach_ok_in, Rd|].
  split; [apply reach_ok_in, fx_steps_reach; [exact Rf|vm_compute; reflexivity]|].
  repeat split; vm_compute; reflexivity.
Qed.

(** Non-vacuity of the history theorem, same line: the processor takes a part at 8 (timer: event 2, due 32, 24 left); the source's event at
    16 is executed (8 of the 24 gone); the processor is shut down (timer paused with 16 left), the source's hand-over attempt at 16 and a
    user event at 40 are executed, the processor is
    restored at 40 (timer due 56); the timer fires at 56: 8 + 16 = 24 of unpaused time, 24 of pause on top. *)
Definition c06_s2 := fx_steps c06_sc 2 c06_s0.
Definition c06_ops := [FXStep; FXNow (UShutdown 2); FXStep; FXAt 40 0 32; FXStep; FXNow (URestore 2)].
Definition c06_s1 := match fx_hist c06_sc 2 c06_ops c06_s2 with Some (s, _) => s | None => c06_s2 end.
Definition c06_se := fst (do_fxop c06_sc c06_s1 FXStep).
Example C06_history_nonvacuous :
  reach_in c06_sc c06_s2 /\ Rem fact (snd c06_s2) 2%nat 24 /\
  chain fact fw (wgen 1 1) (exec_fl c06_sc) fl_wfail 2%nat c06_s2 c06_s1 8 /\
  map (fun e => (e_id e, e_time e, e_cancelled e)) (queue (snd c06_s1)) = [(2%nat, 56, false)] /\ now (snd c06_s1) = 40 /\
  step (wgen 1 1) (exec_fl c06_sc) fl_wfail c06_s1 = Some (Ok c06_se) /\ now (snd c06_se) = 56.
Proof.
  assert (R0 : reach_ok c06_sc c06_s0).
  { apply ro_init; [vm_compute; reflexivity|]. unfold c06_s0. vm_compute. reflexivity. }
  split; [apply reach_ok_in, fx_steps_reach; [exact R0|vm_compute; reflexivity]|].
  split.
  { assert (Q : exists e0 e1, queue (snd c06_s2) = [e0; e1] /\ e_id e1 = 2%nat /\ e_cancelled e1 = false /\ e_time e1 = 32 /\ now (snd c06_s2) = 8).
    { vm_compute. eexists. eexists. repeat split; reflexivity. }
    destruct Q as [e0 [e1 [Q [Qi [Qc [Qt Qn]]]]]]. left. exists e1. rewrite Q, Qn, Qt. split; [right; left; reflexivity|]. repeat split; auto. }
  split; [apply (fx_hist_chain c06_sc 2 c06_ops); vm_compute; reflexivity|].
  split; [vm_compute; reflexivity|]. split; [vm_compute; reflexivity|]. split; vm_compute; reflexivity.
Qed.
