(** C11 — A processor works only while holding exactly the resources it requires.  Statements only.
    Proved for every reachable world: the pool/holding equations and exactness; acquisition at acceptance;
    release on failure; kept through a maintenance shutdown.  And, at the level of the event queue
    (Proofs/FloorLink.v, Proofs/FloorIdle.v): in every state reached without a Python exception — also every state inside a
    run — a processor that holds a reservation without a part in process has an uncancelled RELEASE event of its own pending
    at the current instant (paused with it while the processor is shut down); hence **whenever time advances no idle
    operational processor holds resources** ([C11_idle_holds_nothing]). *)
From Coq Require Import ZArith List Bool Lia Sorting.Permutation Sorting.Sorted.
From RecordUpdate Require Import RecordUpdate.
From SimVerif Require Import Model.Base Model.Env Model.FamEnv Model.RM Model.Maint Model.FloorTypes Model.Floor Model.FamFloor.
From SimVerif Require Import Proofs.RMInv Proofs.EnvInv Proofs.EnvPause Proofs.FloorReach Proofs.FloorSteps Proofs.FloorInv Proofs.FloorSys Proofs.FloorProc Proofs.FloorFlow Proofs.FloorRes Proofs.FloorLink Proofs.FloorIdle.
Import ListNotations.
Open Scope Z_scope.

(** at every instant each pool's usage equals the sum of the requirements of the processors currently holding
    reservations: preserved by every event action, every call between events and every executed event of the system *)
Theorem C11_usage_is_sum_of_holdings : forall w m, HoldW w -> usage (r_pools (f_rm w)) m = hold_total w m.
Proof. intros w m H. exact (hw_usage w H m). Qed.

Theorem C11_invariant_event : forall nw fuel uops a w, HoldW w -> HoldW (exec_fact fuel uops a w nw).
Proof. exact exec_HoldW. Qed.
Theorem C11_invariant_call : forall fuel nw w o, HoldW w -> HoldW (run_uop fuel nw w o).
Proof. exact uop_HoldW. Qed.
Theorem C11_invariant_step : forall sc ws s r,
  HoldW (fst s) -> step ws (exec_fl sc) fl_wfail s = Some r -> HoldW (fst (res_val r)).
Proof. exact step_HoldW. Qed.
Theorem C11_invariant_initial : forall w,
  RInv (f_rm w) -> (forall m, usage (r_pools (f_rm w)) m = 0) -> NoDup (map fst (f_devs w)) ->
  (forall e, In e (f_devs w) -> d_reserved (snd e) = None) -> HoldW w.
Proof. exact HoldW_initial. Qed.

(** a processor that holds a reservation holds exactly the declared amounts, and nobody shares its reservation *)
Theorem C11_holding_exact : forall w d x i m,
  HoldW w -> aget d (f_devs w) = Some x -> d_reserved x = Some i ->
  exists rq, d_req x = Some rq /\ sumreq (nth i (r_res (f_rm w)) []) m = sumreq rq m.
Proof. exact holding_exact. Qed.
Theorem C11_not_shared : forall w, HoldW w -> forall d d' x x' i,
  aget d (f_devs w) = Some x -> aget d' (f_devs w) = Some x' -> d_reserved x = Some i -> d_reserved x' = Some i -> d = d'.
Proof. intros w H. exact (hw_inj w H). Qed.

(** a part enters an empty processor that declares resources only while the reservation is held
    (every device change is a guarded transformer, C02_only_guarded_changes) *)
Theorem C11_acceptance_needs_reservation : forall nw g f,
  dprim nw g f -> forall x, g x -> d_kind x = KProcessor -> d_part x = None -> d_part (f x) <> None ->
  d_req x = None \/ d_reserved x <> None.
Proof. exact accept_needs_reservation. Qed.

(** acquisition is atomic: a request that does not fit entirely takes nothing (C09) *)
Theorem C11_acquisition_atomic : forall nw r s, RInv s -> r_err s = 0 ->
  r_err (fst (reserve nw r s)) = 0 -> snd (reserve nw r s) = None -> fst (reserve nw r s) = s.
Proof. intros nw r s I E E1 N. destruct (reserve_spec nw r s I E) as [_ [_ [H _]]]. exact (proj1 (H E1 N)). Qed.

(** given back on failure; kept through a (maintenance) shutdown; the release event releases exactly when idle *)
Theorem C11_failure_releases : forall nw w d, d_kind (getd w d) = KProcessor -> d_reserved (getd (fail nw w d) d) = None.
Proof. exact fail_releases. Qed.
Theorem C11_shutdown_keeps : forall nw isf lost w d d', d_reserved (getd (shutdown nw isf lost w d) d') = d_reserved (getd w d').
Proof. exact shutdown_keeps_reserved. Qed.
Theorem C11_release_when_idle : forall nw w d,
  release_if_idle nw w d =
  if negb (operational (getd w d)) || (match d_part (getd w d) with None => true | Some _ => false end)
  then release_reserved nw w d else w.
Proof. exact release_if_idle_spec. Qed.
Theorem C11_release_clears : forall nw w d, amem d (f_devs w) = true -> d_reserved (getd (release_reserved nw w d) d) = None.
Proof. exact release_reserved_clears. Qed.

(** the resource invariant in every reachable state of every well-formed scenario *)
Theorem C11_always : forall sc s, reach_fl sc s -> HoldW (fst s).
Proof. exact reach_hold. Qed.
Theorem C11_usage_always : forall sc s m, reach_fl sc s -> usage (r_pools (f_rm (fst s))) m = hold_total (fst s) m.
Proof. intros sc s m H. exact (hw_usage _ (reach_hold sc s H) m). Qed.

(** finishing a part while holding a reservation schedules the release-if-idle event at this very instant, after the hand-over
    attempt: the resources go back unless the next part is accepted in between *)
Theorem C11_finish_schedules_release : forall fuel nw w d it i,
  d_kind (getd w d) = KProcessor -> d_shut (getd w d) = false -> d_part (getd w d) = Some it -> d_out (getd w d) = None ->
  d_reserved (getd w d) = Some i -> amem d (f_devs w) = true ->
  exists l l', f_out (finish_cycle fuel nw w d) = l ++ FSched nw P_RELEASE d (AReleaseIfIdle d) :: l' /\
               In (FSched (Z.max 0 (nw + 0)) P_PASS_PART d (APassPart d)) l'.
Proof. exact finish_schedules_release. Qed.

Print Assumptions C11_usage_is_sum_of_holdings.
Print Assumptions C11_invariant_event.
Print Assumptions C11_invariant_call.
Print Assumptions C11_invariant_step.
Print Assumptions C11_invariant_initial.
Print Assumptions C11_holding_exact.
Print Assumptions C11_not_shared.
Print Assumptions C11_acceptance_needs_reservation.
Print Assumptions C11_acquisition_atomic.
Print Assumptions C11_failure_releases.
Print Assumptions C11_shutdown_keeps.
Print Assumptions C11_release_when_idle.
Print Assumptions C11_release_clears.

Print Assumptions C11_always.
Print Assumptions C11_usage_always.
Print Assumptions C11_finish_schedules_release.
(** Non-vacuity: a world with one pool (capacity 16) and a processor requiring 8 of it satisfies the invariant
    before anything is reserved, and after the processor reserved. *)
Definition c11_w0 : fw :=
  mkFw [(1, (blank_dev KProcessor) <| d_req := Some [(0, 8)] |>)] [] (add_resources 0 0 16 init_rs) [] 1 [] [] 0.
Example C11_nonvacuous :
  HoldW c11_w0 /\ fst (proc_can_accept 0 c11_w0 1) <> c11_w0 /\
  usage (r_pools (f_rm (fst (proc_can_accept 0 c11_w0 1)))) 0 = 8 /\ hold_total (fst (proc_can_accept 0 c11_w0 1)) 0 = 8.
Proof.
  split; [|split; [|split]]; try (vm_compute; congruence); try reflexivity.
  apply HoldW_initial.
  - destruct (add_resources_spec 0 0 16 init_rs RInv_init eq_refl) as [I _]. exact I.
  - intro m. unfold c11_w0. cbn. destruct (add_resources_spec 0 0 16 init_rs RInv_init eq_refl) as [_ [_ H]].
    destruct (H eq_refl) as [U _]. rewrite U. reflexivity.
  - cbn. repeat constructor. intros [].
  - intros e [<-|[]]. reflexivity.
Qed.

(** * the last clause: whenever time advances no idle operational processor holds resources.
    [reach_in sc s]: s is reached from the initialisation of a well-formed world by calls between events, scheduled user
    events, single executed events and the start of a run, none of which raised; every state inside a whole run is such a
    state ([C11_whole_runs_covered]). *)
Theorem C11_idle_holds_nothing : forall sc s,
  reach_in sc s -> (forall e, In e (queue (snd s)) -> now (snd s) < e_time e) ->
  forall d, d_kind (getd (fst s) d) = KProcessor -> d_shut (getd (fst s) d) = false -> d_part (getd (fst s) d) = None ->
  d_reserved (getd (fst s) d) = None.
Proof. exact idle_processor_holds_nothing. Qed.

(** the invariant behind it, at every instant: the release of an idle holder is pending now, or paused with the shut-down device *)
Theorem C11_release_pending : forall sc s d,
  reach_in sc s -> d_kind (getd (fst s) d) = KProcessor -> d_reserved (getd (fst s) d) <> None -> d_part (getd (fst s) d) = None ->
  exists e : event fact, e_asset e = d /\ e_act e = Some (AReleaseIfIdle d) /\ e_cancelled e = false /\
    ((In e (queue (snd s)) /\ e_time e = now (snd s)) \/
     (In e (paused (snd s)) /\ e_paused_at e = Some (e_time e) /\ d_shut (getd (fst s) d) = true)).
Proof. intros sc s d HR K RV P. apply (idle_holder_release_pending sc s d HR). split; [exact K|split; [exact RV|exact P]]. Qed.

Theorem C11_whole_runs_covered : forall sc s, reach_ok sc s -> reach_in sc s.
Proof. exact reach_ok_in. Qed.

Print Assumptions C11_idle_holds_nothing.
Print Assumptions C11_release_pending.
Print Assumptions C11_whole_runs_covered.

(** Non-vacuity: source (one part) -> processor requiring 8 of a pool of 16 -> sink.  After six executed events the processor
    has finished its part and still holds the reservation, with only its RELEASE event pending; two events later the queue
    is empty, the processor is idle and operational, and it holds nothing. *)
Definition c11_world1 : fw :=
  mkFw [(1, (blank_dev KSource) <| d_down := [2] |> <| d_cycle := 8 |> <| d_budget := Some 1 |>);
        (2, (blank_dev KProcessor) <| d_up := [1] |> <| d_down := [3] |> <| d_cycle := 8 |> <| d_req := Some [(0, 8)] |>);
        (3, (blank_dev KSink) <| d_up := [2] |>)] [] (add_resources 0 0 16 init_rs) [] 10 [] [] 0.
Definition c11_sc1 : fl_scn := mkFlScn 1 1 c11_world1 [] [].
Definition c11_t0 := fst (do_fxop c11_sc1 (c11_world1, init_env) FXInit).
Example C11_idle_nonvacuous :
  reach_in c11_sc1 (fx_steps c11_sc1 6 c11_t0) /\ idle_holder (getd (fst (fx_steps c11_sc1 6 c11_t0)) 2) /\
  map (fun e => (e_time e, e_asset e)) (queue (snd (fx_steps c11_sc1 6 c11_t0))) = [(16, 2)] /\
  reach_in c11_sc1 (fx_steps c11_sc1 8 c11_t0) /\ queue (snd (fx_steps c11_sc1 8 c11_t0)) = [] /\
  d_kind (getd (fst (fx_steps c11_sc1 8 c11_t0)) 2) = KProcessor /\ d_shut (getd (fst (fx_steps c11_sc1 8 c11_t0)) 2) = false /\
  d_part (getd (fst (fx_steps c11_sc1 8 c11_t0)) 2) = None /\ d_reserved (getd (fst (fx_steps c11_sc1 8 c11_t0)) 2) = None.
Proof.
  assert (R0 : reach_ok c11_sc1 c11_t0).
  { apply ro_init; [vm_compute; reflexivity|]. unfold c11_t0. vm_compute. reflexivity. }
  split; [apply reach_ok_in, fx_steps_reach; [exact R0|vm_compute; reflexivity]|].
  split; [vm_compute; repeat split; congruence|].
  split; [vm_compute; reflexivity|].
  split; [apply reach_ok_in, fx_steps_reach; [exact R0|vm_compute; reflexivity]|].
  repeat split; vm_compute; reflexivity.
Qed.
