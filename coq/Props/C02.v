(** C02 — Parts are conserved: never duplicated, dropped or invented.
    Statements only.  PARTIAL: proved here are the single-slot clause, the "a refused offer changes
    nothing about who holds what" ingredients and the slot effects of the transformers; the global census
    equation (generated = inside + delivered + lost) is stated as [C02_full_statement] and is validated by
    the lock-step correspondence and the census monitor, not yet proved (DESIGN.md section 10). *)
From Coq Require Import ZArith List Bool Lia.
From RecordUpdate Require Import RecordUpdate.
From SimVerif Require Import Model.Base Model.Env Model.FamEnv Model.RM Model.Maint Model.FloorTypes Model.Floor Model.FamFloor.
From SimVerif Require Import Proofs.FloorReach Proofs.FloorSteps Proofs.FloorInv Proofs.FloorSys Proofs.FloorProc.
Import ListNotations.
Open Scope Z_scope.

(** a single-slot device (handler, processor, sink) never holds an input part and a finished part at once *)
Theorem C02_single_slot_meaning : forall x, SlotInv x ->
  (d_kind x = KHandler \/ d_kind x = KProcessor \/ d_kind x = KSink) -> d_part x = None \/ d_out x = None.
Proof. intros x H [K|[K|K]]; unfold SlotInv in H; rewrite K in H; exact H. Qed.

Theorem C02_single_slot_event : forall nw fuel uops a w, DevInv SlotInv w -> DevInv SlotInv (exec_fact fuel uops a w nw).
Proof. intros. apply exec_DevInv; [apply stable_SlotInv|assumption]. Qed.
Theorem C02_single_slot_step : forall sc ws s r,
  DevInv SlotInv (fst s) -> step ws (exec_fl sc) fl_wfail s = Some r -> DevInv SlotInv (fst (res_val r)).
Proof. intros sc ws. apply (step_DevInv sc ws SlotInv stable_SlotInv). Qed.

(** every change of any device during any event action is one of the guarded transformers; in particular a part
    enters a slot only by [t_accept*] (guard: both slots empty), moves input -> output only by [t_finish*]
    (guard: that very part is in the input slot, the output slot is empty), and identities are never rewritten *)
Theorem C02_only_guarded_changes : forall nw fuel uops a w, R MFull nw w (exec_fact fuel uops a w nw).
Proof. intros. apply R_exec_fact. reflexivity. Qed.

(** a device whose input is occupied or whose output is waiting refuses: no part is ever overwritten *)
Theorem C02_accept_needs_empty_slots : forall x, handler_can_accept x = true -> d_part x = None /\ d_out x = None.
Proof. exact handler_can_accept_slots. Qed.

(** a failure removes exactly the input part and nothing else *)
Theorem C02_failure_loses_only_input : forall nw w d,
  d_kind (getd w d) = KProcessor -> amem d (f_devs w) = true ->
  let w' := fail nw w d in
  d_part (getd w' d) = None /\ d_out (getd w' d) = d_out (getd w d) /\ d_shut (getd w' d) = true.
Proof. exact fail_effect. Qed.

(** the part identities inside a device; the full property (not yet proved, see the header) says: over any
    event, [inside] after ++ delivered ++ lost is a permutation of [inside] before ++ generated, without duplicates *)
Definition leaves_of (o : option item) : list Z := match o with Some it => map p_id (item_parts it) | None => [] end.
Definition dev_leaves (x : dev) : list Z :=
  match d_kind x with
  | KSink => []
  | _ => leaves_of (d_part x) ++ leaves_of (d_out x) ++ leaves_of (d_inprog x) ++ flat_map (fun e => leaves_of (Some (snd e))) (d_buf x)
  end.
Definition inside (w : fw) : list Z := flat_map (fun e => dev_leaves (snd e)) (f_devs w).

(** ... in every state that any well-formed scenario can reach (initialisation, calls, scheduled user events, steps, runs; any weights) *)
Theorem C02_single_slot_always : forall sc s d x, reach_fl sc s -> aget d (f_devs (fst s)) = Some x -> SlotInv x.
Proof. intros sc s d x H Hx. exact (proj1 (reach_dev sc s d x H Hx)). Qed.

Print Assumptions C02_single_slot_meaning.
Print Assumptions C02_single_slot_event.
Print Assumptions C02_single_slot_step.
Print Assumptions C02_only_guarded_changes.
Print Assumptions C02_accept_needs_empty_slots.
Print Assumptions C02_failure_loses_only_input.

Print Assumptions C02_single_slot_always.
Example C02_nonvacuous :
  let h := t_finish (ISingle (mkPart 3 0 8 [1] [])) (t_accept 0 (ISingle (mkPart 3 0 8 [1] [])) (blank_dev KHandler)) in
  SlotInv (blank_dev KHandler) /\ SlotInv h /\ d_part h = None /\ leaves_of (d_out h) = [3].
Proof. unfold SlotInv. cbn. repeat split; auto. Qed.

(** Non-vacuity of "every reachable state of every well-formed scenario": the line source(3) -> buffer -> buffer -> sink(8),
    encoded as the harness encodes it, is well-formed; after initialisation and a run of 24 ticks the sink has received 2 parts. *)
Definition c02_line : list Z :=
  [0; 301; 3; 0; 0; 0; 0; 0; 100; 5; 3; 3; 8; 8; 0; 0; 100; 4; 3; 5; 0; 0; 0; 0; 101; 2; 1; 0; 0; 0; 0; 0; 100; 4; 3; 5; 0; 0; 0; 0;
   101; 3; 2; 0; 0; 0; 0; 0; 100; 6; 8; 0; 0; 0; 0; 0; 101; 4; 3; 0; 0; 0; 0; 0; 112; 0; 0; 0; 0; 0; 0; 0; 15; 24; 0; 0; 0; 0; 0; 0].
Example C02_reach_nonvacuous :
  let sc := decode_fl_scn c02_line in
  let s1 := fst (do_fxop sc (fq_world sc, init_env) FXInit) in
  let s2 := fst (do_fxop sc s1 (FXRun 24)) in
  wf_worldb (fq_world sc) = true /\ reach_fl sc s2 /\ d_received (getd (fst s2) 4) = 2.
Proof.
  cbv zeta. split; [vm_compute; reflexivity|]. split; [|vm_compute; reflexivity].
  apply rf_op; [apply rf_init; vm_compute; reflexivity|discriminate].
Qed.
