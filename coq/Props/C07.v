(** C07 — Pausing, resuming and cancelling events preserves remaining delays.
    Statements only; proofs are [exact] of lemmas in Proofs/EnvPause.v. *)
From Coq Require Import ZArith List Bool Lia Sorting.Sorted Sorting.Permutation.
From SimVerif Require Import Model.Base Model.Env Proofs.EnvInv Proofs.EnvPause Proofs.EnvRem Proofs.EnvOpTime.
Import ListNotations.
Open Scope Z_scope.

Section C07.
  Variables (A W : Type) (wsrc : nat -> Z) (exec : A -> W -> Z -> W * list (cmd A)) (wfail : W -> bool).

  (** pause withholds exactly the asset's pending events (moved, in order, to the
      paused list stamped with the current time); all others stay where they are *)
  Theorem C07_pause_spec : forall (en : env A) a,
    queue (pause en a) = filter (fun e => negb (matches a e)) (queue en) /\
    paused (pause en a) = paused en ++ map (stamp (now en)) (filter (matches a) (queue en)) /\
    now (pause en a) = now en /\ next_eid (pause en a) = next_eid en /\
    dispatched (pause en a) = dispatched en /\ terminated (pause en a) = terminated en.
  Proof. exact (pause_spec A). Qed.

  Theorem C07_pause_withholds : forall (en : env A) a,
    (forall e, In e (queue (pause en a)) <-> In e (queue en) /\ e_asset e <> a) /\
    (forall e, In e (queue en) -> e_asset e = a -> In (stamp (now en) e) (paused (pause en a))) /\
    (forall e, In e (paused en) -> In e (paused (pause en a))).
  Proof. exact (pause_withholds A). Qed.

  (** only the queue head is ever dispatched, so a withheld (paused) event is not *)
  Theorem C07_paused_not_dispatched : forall s,
    reach A W wsrc exec wfail s ->
    forall x y, In x (queue (snd s)) -> In y (paused (snd s)) -> e_id x <> e_id y.
  Proof. intros s R x y. exact (inv_queue_paused_disj A (snd s) x y (reach_inv A W wsrc exec wfail s R)). Qed.

  (** unpause re-inserts exactly the asset's paused events, each at original time +
      length of the pause, keeping the queue sorted; others untouched *)
  Theorem C07_unpause_spec : forall (en : env A) a,
    Permutation (queue (unpause en a)) (queue en ++ map (resumed (now en)) (filter (matches a) (paused en))) /\
    (StronglySorted (le_ev A) (queue en) -> StronglySorted (le_ev A) (queue (unpause en a))) /\
    paused (unpause en a) = filter (fun e => negb (matches a e)) (paused en) /\
    now (unpause en a) = now en /\ next_eid (unpause en a) = next_eid en /\
    dispatched (unpause en a) = dispatched en.
  Proof. exact (unpause_spec A). Qed.

  Theorem C07_remaining_delay_preserved : forall t (e : event A) p,
    e_paused_at e = Some p ->
    e_time (resumed t e) - t = e_time e - p /\ e_time (resumed t e) = e_time e + (t - p).
  Proof. exact (resumed_delay A). Qed.

  Theorem C07_resumed_otherwise_unchanged : forall t (e : event A),
    e_id (resumed t e) = e_id e /\ e_prio (resumed t e) = e_prio e /\
    e_w (resumed t e) = e_w e /\ e_asset (resumed t e) = e_asset e /\ e_act (resumed t e) = e_act e /\
    e_cancelled (resumed t e) = e_cancelled e.
  Proof. exact (resumed_fields A). Qed.

  (** redundant calls change nothing *)
  Theorem C07_pause_idempotent : forall (en : env A) a, pause (pause en a) a = pause en a.
  Proof. exact (pause_idempotent A). Qed.
  Theorem C07_unpause_idempotent : forall (en : env A) a, unpause (unpause en a) a = unpause en a.
  Proof. exact (unpause_idempotent A). Qed.
  Theorem C07_unpause_nothing_paused : forall (en : env A) a,
    filter (matches a) (paused en) = [] -> unpause en a = en.
  Proof. exact (unpause_nothing_paused A). Qed.

  (** cancel flags exactly the asset's pending and paused events and changes nothing else *)
  Theorem C07_cancel_spec : forall (en : env A) a,
    let f := fun e : event A => if matches a e then cancel_ev e else e in
    queue (cancel en a) = map f (queue en) /\ paused (cancel en a) = map f (paused en) /\
    now (cancel en a) = now en /\ next_eid (cancel en a) = next_eid en /\ dispatched (cancel en a) = dispatched en /\
    (forall e, e_asset e = a -> e_cancelled (f e) = true) /\
    (forall e, e_asset e <> a -> f e = e) /\
    (forall e, e_id (f e) = e_id e /\ e_time (f e) = e_time e /\ e_prio (f e) = e_prio e /\ e_w (f e) = e_w e /\
               e_asset (f e) = e_asset e /\ e_act (f e) = e_act e /\ e_paused_at (f e) = e_paused_at e).
  Proof. exact (cancel_spec A). Qed.

  (** dispatching a cancelled event runs no action: world unchanged, no calls *)
  Theorem C07_cancelled_dispatch_is_noop : forall w (en : env A) e q,
    queue en = e :: q -> e_cancelled e = true ->
    step wsrc exec wfail (w, en) = Some (Ok (w, popped A en e q)).
  Proof. exact (step_cancelled_noop A W wsrc exec wfail). Qed.

  (** once cancelled, always cancelled: in every continuation (steps, external calls,
      runs, resumptions of cancelled events) every record of that event is flagged,
      so by the previous theorem its action never runs *)
  Theorem C07_cancelled_never_runs : forall s s' e,
    In e (queue (snd s) ++ paused (snd s)) -> e_cancelled e = true ->
    Inv A (snd s) -> reach_from A W wsrc exec wfail s s' ->
    forall e', In e' (all_events A (snd s')) -> e_id e' = e_id e -> e_cancelled e' = true.
  Proof. exact (cancelled_never_runs A W wsrc exec wfail). Qed.

  (** events scheduled after the pause / cancel call are unaffected *)
  Theorem C07_schedule_after_pause : forall (en : env A) a t p a' act en',
    schedule wsrc (pause en a) t p a' act = Ok en' ->
    paused en' = paused (pause en a) /\
    exists e, In e (queue en') /\ e_time e = t /\ e_asset e = a' /\ e_cancelled e = false /\ e_paused_at e = None /\ e_act e = act.
  Proof. exact (schedule_after_pause A wsrc). Qed.
  Theorem C07_schedule_after_cancel : forall (en : env A) a t p a' act en',
    schedule wsrc (cancel en a) t p a' act = Ok en' ->
    exists e, In e (queue en') /\ e_time e = t /\ e_asset e = a' /\ e_cancelled e = false /\ e_act e = act.
  Proof. exact (schedule_after_cancel A wsrc). Qed.
  (** * remaining delays over whole steps, whatever the actions do.  [Rem en i r]: event number i is live (pending or paused, not
      cancelled) with remaining delay r — its time minus the clock while pending, its time minus the instant of the pause while
      paused.  One step takes exactly the elapsed time off every event that was pending and nothing off an event that was paused;
      pause and unpause never change a remaining delay; an event is dispatched when its delay is used up. *)
  Theorem C07_step_pending_event_loses_elapsed_time : forall w (en : env A) e0 q w' en' e,
    queue en = e0 :: q -> step wsrc exec wfail (w, en) = Some (Ok (w', en')) ->
    In e q -> e_cancelled e = false ->
    Rem A en' (e_id e) ((e_time e - now en) - (now en' - now en)) \/ Cancelled A en' (e_id e).
  Proof. exact (step_pending A W wsrc exec wfail). Qed.
  Theorem C07_step_paused_event_loses_nothing : forall w (en : env A) w' en' e p,
    step wsrc exec wfail (w, en) = Some (Ok (w', en')) ->
    In e (paused en) -> e_cancelled e = false -> e_paused_at e = Some p ->
    Rem A en' (e_id e) (e_time e - p) \/ Cancelled A en' (e_id e).
  Proof. exact (step_paused A W wsrc exec wfail). Qed.
  Theorem C07_dispatched_when_due : forall w (en : env A) e0 q w' en',
    queue en = e0 :: q -> step wsrc exec wfail (w, en) = Some (Ok (w', en')) -> now en' = e_time e0.
  Proof. exact (step_dispatch_time A W wsrc exec wfail). Qed.
  Theorem C07_pause_keeps_remaining_delay : forall (en : env A) a i r, Rem A en i r -> Rem A (pause en a) i r.
  Proof. exact (pause_rem A). Qed.
  Theorem C07_unpause_keeps_remaining_delay : forall (en : env A) a i r, Rem A en i r -> Rem A (unpause en a) i r.
  Proof. exact (unpause_rem A). Qed.

  (** * whole histories (Proofs/EnvOpTime.v): [chain i s s' t] = any sequence of executed events (whatever their actions do), batches of
      calls made between events and runs started, leading from s to s', with t = the time the clock advanced over the steps at whose
      start event i was pending *)
  (** remaining delay = initial remaining delay minus the time spent pending, at every later point — or the event is dead *)
  Theorem C07_remaining_delay_along_any_history : forall i s s' t r,
    chain A W wsrc exec wfail i s s' t -> Inv A (snd s) -> Rem A (snd s) i r ->
    Rem A (snd s') i (r - t) \/ Dead A (snd s') i.
  Proof. intros i s s' t r CH. exact (chain_rem A W wsrc exec wfail i s s' t CH r). Qed.
  (** an event is dispatched after exactly its delay of time spent pending: pauses of any number, nesting and length postpone it by
      exactly their length and lose nothing *)
  Theorem C07_fires_after_exactly_its_delay_of_unpaused_time : forall i s w1 en1 t r e0 q s2,
    Inv A (snd s) -> Rem A (snd s) i r -> chain A W wsrc exec wfail i s (w1, en1) t ->
    queue en1 = e0 :: q -> e_id e0 = i -> e_cancelled e0 = false -> step wsrc exec wfail (w1, en1) = Some (Ok s2) ->
    t + (now (snd s2) - now en1) = r /\ pendingb A en1 i = true.
  Proof. exact (fires_after_exactly_its_delay A W wsrc exec wfail). Qed.
  (** cancelled (or dispatched) once, never live again *)
  Theorem C07_dead_forever : forall i s s' t r,
    Inv A (snd s) -> chain A W wsrc exec wfail i s s' t -> Dead A (snd s) i -> ~ Rem A (snd s') i r.
  Proof. exact (dead_forever A W wsrc exec wfail). Qed.
End C07.

Print Assumptions C07_pause_spec.
Print Assumptions C07_pause_withholds.
Print Assumptions C07_paused_not_dispatched.
Print Assumptions C07_unpause_spec.
Print Assumptions C07_remaining_delay_preserved.
Print Assumptions C07_resumed_otherwise_unchanged.
Print Assumptions C07_pause_idempotent.
Print Assumptions C07_unpause_idempotent.
Print Assumptions C07_unpause_nothing_paused.
Print Assumptions C07_cancel_spec.
Print Assumptions C07_cancelled_dispatch_is_noop.
Print Assumptions C07_cancelled_never_runs.
Print Assumptions C07_schedule_after_pause.
Print Assumptions C07_schedule_after_cancel.
Print Assumptions C07_step_pending_event_loses_elapsed_time.
Print Assumptions C07_step_paused_event_loses_nothing.
Print Assumptions C07_dispatched_when_due.
Print Assumptions C07_pause_keeps_remaining_delay.
Print Assumptions C07_unpause_keeps_remaining_delay.
Print Assumptions C07_remaining_delay_along_any_history.
Print Assumptions C07_fires_after_exactly_its_delay_of_unpaused_time.
Print Assumptions C07_dead_forever.

(** Non-vacuity: pause at time 8, resume at 24: the event due at 16 comes back at 32. *)
From SimVerif Require Import Model.FamEnv.
Example C07_nonvacuous :
  let ws := wgen 0 1 in
  match schedule ws init_env 16 112 1 (Some 0%nat) with
  | Ok en =>
    let en1 := pause (mkEnv 8 (queue en) (paused en) (next_eid en) true [] []) 1 in
    let en2 := unpause (mkEnv 24 (queue en1) (paused en1) (next_eid en1) true [] []) 1 in
    map e_time (queue en2) = [32] /\ paused en2 = [] /\ length (paused en1) = 1%nat
  | Err _ => False
  end.
Proof. vm_compute. repeat split. Qed.
