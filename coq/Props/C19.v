(** C19 — Sensors sample when they should and keep bounded, aligned data.  Statements only.
    [hists] / [times] are the complete measurement histories (ghosts, not part of the model state);
    [recent cap hist series] : series is exactly the most recent min(count, capacity) entries. *)
From Coq Require Import ZArith List Bool Lia.
From SimVerif Require Import Model.Base Model.Env Model.FamEnv Model.Sensor Model.FamSensor.
From SimVerif Require Import Proofs.EnvInv Proofs.SensorInv Proofs.SensorSys.
Import ListNotations.
Open Scope Z_scope.

Theorem C19_recent_meaning : forall cap (hist series : list Z), recent cap hist series ->
  (exists pre, hist = pre ++ series) /\
  length series = match cap with None => length hist | Some c => Nat.min (length hist) (Z.to_nat c) end.
Proof. intros cap hist series H. exact H. Qed.

Theorem C19_new_sensor : forall cap n, cap_ok cap -> SnInv (repeat [] n) (new_sensor cap n).
Proof. exact SnInv_new. Qed.

(** one measurement: every probe's series gets the probed value, keeps only the most recent
    min(count, c) entries; last_sense = the values; measurement count + 1 *)
Theorem C19_collect : forall hists vals s,
  SnInv hists s -> length vals = length (sn_data s) ->
  SnInv (map (fun hv => fst hv ++ [snd hv]) (combine hists vals)) (sn_collect vals s) /\
  sn_last (sn_collect vals s) = vals /\ sn_count (sn_collect vals s) = S (sn_count s) /\
  sn_cbs (sn_collect vals s) = sn_cbs s /\ sn_time (sn_collect vals s) = sn_time s.
Proof. exact collect_inv. Qed.

Theorem C19_bounded_aligned : forall hists s, SnInv hists s ->
  (forall i j, (i < length (sn_data s))%nat -> (j < length (sn_data s))%nat ->
               length (nth i (sn_data s) []) = length (nth j (sn_data s) [])) /\
  (forall c i, sn_cap s = Some c -> (i < length (sn_data s))%nat -> Z.of_nat (length (nth i (sn_data s) [])) <= c).
Proof. exact SnInv_bounded_aligned. Qed.

(** periodic sensor: probe series as above, every on-sense callback once, in registration order, with
    (time, values); the time series too holds exactly the most recent min(count, c) sampling instants *)
Theorem C19_periodic_probes : forall hists nw vals s,
  SnInv hists s -> length vals = length (sn_data s) ->
  SnInv (map (fun hv => fst hv ++ [snd hv]) (combine hists vals)) (fst (periodic_sense nw vals s)) /\
  snd (periodic_sense nw vals s) = map (fun c => (c, nw, vals)) (sn_cbs s).
Proof. exact periodic_sense_probes. Qed.

Theorem C19_periodic_time : forall nw vals s times,
  cap_ok (sn_cap s) -> recent (sn_cap s) times (sn_time s) ->
  recent (sn_cap s) (times ++ [nw]) (sn_time (fst (periodic_sense nw vals s))).
Proof. exact periodic_sense_time. Qed.

(** the callbacks are notified in the state the measurement ends in: the sensor's series, the time series included, all hold the same
    number of entries when they run (false of the code before fix 92eafab: Findings/C19_refuted.v, D11) *)
Theorem C19_periodic_aligned_at_notification : forall hists nw vals s times,
  SnInv hists s -> length vals = length (sn_data s) -> recent (sn_cap s) times (sn_time s) ->
  (forall i, (i < length hists)%nat -> length (nth i hists []) = length times) ->
  let s1 := fst (periodic_sense nw vals s) in
  snd (periodic_sense nw vals s) = sn_sense_calls nw s1 /\
  forall i, (i < length (sn_data s1))%nat -> length (nth i (sn_data s1) []) = length (sn_time s1).
Proof. intros. split; [reflexivity|]. eapply periodic_sense_aligned_at_notification; eauto. Qed.

(** the k-th measurement is due exactly k intervals after the start (k-fold addition), and there is
    always exactly one pending measurement event: system invariant preserved by every executed event *)
Theorem C19_system_step : forall sc ws t0 s s',
  SysN sc t0 s -> step ws (exec_sn sc) (fun _ => false) s = Some (Ok s') -> SysN sc t0 s'.
Proof. exact step_SysN. Qed.
Theorem C19_due : forall sc t0 k, due sc t0 k = t0 + Z.of_nat k * nq_interval sc.
Proof. exact due_closed_form. Qed.

(** output-part sensor: with sensing interval n the first finished part is measured, then every
    (n+1)-th; a measured part stores the values and calls each callback once in order *)
Theorem C19_part_counting : forall nw n vals s i,
  0 <= n -> sn_counter s = counter_after n i ->
  let r := probe_part nw n vals s in
  sn_counter (fst r) = counter_after n (S i) /\
  (measured n i = true -> sn_count (fst r) = S (sn_count s) /\ sn_last (fst r) = vals /\
                          snd r = map (fun c => (c, nw, vals)) (sn_cbs s)) /\
  (measured n i = false -> sn_count (fst r) = sn_count s /\ sn_data (fst r) = sn_data s /\ snd r = []).
Proof. exact probe_part_counting. Qed.
Theorem C19_part_counter_start : forall n, 0 <= n -> counter_after n 0 = 0.
Proof. exact counter_after_init. Qed.
Theorem C19_measured_parts : forall n i, 0 <= n -> measured n i = true <-> exists j, Z.of_nat i = j * (n + 1).
Proof. exact measured_spec. Qed.

(** a condition-monitoring system registers with a sensor at most once *)
Theorem C19_cms_idempotent : forall l sid, cms_add (fst (cms_add l sid)) sid = (fst (cms_add l sid), false).
Proof. exact cms_add_idempotent. Qed.

Print Assumptions C19_recent_meaning.
Print Assumptions C19_new_sensor.
Print Assumptions C19_collect.
Print Assumptions C19_bounded_aligned.
Print Assumptions C19_periodic_probes.
Print Assumptions C19_periodic_time.
Print Assumptions C19_periodic_aligned_at_notification.
Print Assumptions C19_system_step.
Print Assumptions C19_due.
Print Assumptions C19_part_counting.
Print Assumptions C19_part_counter_start.
Print Assumptions C19_measured_parts.
Print Assumptions C19_cms_idempotent.

(** Non-vacuity: capacity 2, three measurements: the series keep the last two, aligned with the time series. *)
Example C19_nonvacuous :
  let s0 := sn_add_cb 7 (new_sensor (Some 2) 2) in
  let s1 := fst (periodic_sense 8 [1; 10] s0) in
  let s2 := fst (periodic_sense 16 [2; 20] s1) in
  let s3 := fst (periodic_sense 24 [3; 30] s2) in
  sn_data s3 = [[2; 3]; [20; 30]] /\ sn_time s3 = [16; 24] /\ snd (periodic_sense 24 [3; 30] s2) = [(7, 24, [3; 30])].
Proof. vm_compute. repeat split. Qed.
