(** C16 — Value accounting adds up.  Statements only. *)
From Coq Require Import ZArith List Bool Lia.
From RecordUpdate Require Import RecordUpdate.
From SimVerif Require Import Model.Base Model.Env Model.FamEnv Model.RM Model.Maint Model.FloorTypes Model.Floor Model.FamFloor.
From SimVerif Require Import Proofs.FloorReach Proofs.FloorSteps Proofs.FloorInv Proofs.FloorSys Proofs.MaintInv.
Import ListNotations.
Open Scope Z_scope.

(** every asset's value equals its starting value (0 for devices) plus the sum of the changes in its
    history; every entry carries the running total; zero changes are not recorded *)
Theorem C16_history_meaning : forall x, ValInv x ->
  hist_ok 0 (d_vhist x) /\ d_value x = hist_end 0 (d_vhist x).
Proof. intros x H. exact H. Qed.

Theorem C16_history_event : forall nw fuel uops a w, DevInv ValInv w -> DevInv ValInv (exec_fact fuel uops a w nw).
Proof. intros. apply exec_DevInv; [apply stable_ValInv|assumption]. Qed.
Theorem C16_history_step : forall sc ws s r,
  DevInv ValInv (fst s) -> step ws (exec_fl sc) fl_wfail s = Some r -> DevInv ValInv (fst (res_val r)).
Proof. intros sc ws. apply (step_DevInv sc ws ValInv stable_ValInv). Qed.

(** a source is worth minus the summed value of the parts it has supplied (value at hand-over);
    a sink is worth the summed value (at receipt) of the parts it has received *)
Theorem C16_source_sink_event : forall nw fuel uops a w, DevInv EndValInv w -> DevInv EndValInv (exec_fact fuel uops a w nw).
Proof. intros. apply exec_DevInv; [apply stable_EndValInv|assumption]. Qed.
Theorem C16_source_sink_step : forall sc ws s r,
  DevInv EndValInv (fst s) -> step ws (exec_fl sc) fl_wfail s = Some r -> DevInv EndValInv (fst (res_val r)).
Proof. intros sc ws. apply (step_DevInv sc ws EndValInv stable_EndValInv). Qed.

Theorem C16_supplied : forall nw v x,
  d_value (t_supplied nw v x) = d_value x - v /\ d_cost_produced (t_supplied nw v x) = d_cost_produced x + v /\
  d_produced (t_supplied nw v x) = d_produced x + 1.
Proof. exact supplied_value. Qed.
Theorem C16_received : forall nw it x,
  d_value (t_accept_sink nw it x) = d_value x + item_value it /\
  d_received (t_accept_sink nw it x) = d_received x + item_count it /\
  d_collected (t_accept_sink nw it x) = (if d_collect x then d_collected x ++ [it] else d_collected x).
Proof. exact sink_accept_value. Qed.

(** a batch is worth the sum of its parts *)
Theorem C16_batch_value : forall b ps, item_value (IBatch b ps) = fold_right (fun p acc => p_value p + acc) 0 ps.
Proof. reflexivity. Qed.

(** a maintainer's value drops by each started order's cost, once *)
Theorem C16_maintainer_cost : forall nw wo costv durv m,
  m_value (m_start_post nw wo durv (m_start_pre nw wo costv m)) = m_value m - costv.
Proof. intros. destruct (m_start_frame nw wo costv durv m) as [_ [_ [_ [_ [_ [V _]]]]]]. exact V. Qed.

(** the system's net value is the sum over its registered assets (devices and maintainers) *)
Definition net_value (w : fw) : Z :=
  fold_right (fun e acc => d_value (snd e) + acc) 0 (f_devs w) + fold_right (fun e acc => m_value (snd e) + acc) 0 (f_maints w).
Theorem C16_net_value_is_sum : forall w,
  net_value w = fold_right Z.add 0 (map (fun e => d_value (snd e)) (f_devs w)) + fold_right Z.add 0 (map (fun e => m_value (snd e)) (f_maints w)).
Proof.
  intro w. unfold net_value. f_equal.
  - induction (f_devs w) as [|e l IH]; cbn; [reflexivity|]. rewrite IH. reflexivity.
  - induction (f_maints w) as [|e l IH]; cbn; [reflexivity|]. rewrite IH. reflexivity.
Qed.

(** value bookkeeping in every reachable state of every well-formed scenario: a device's value is the sum of its
    recorded value changes; a source's value is minus the cost of the parts it supplied; a sink's value is what it received *)
Theorem C16_always : forall sc s d x, reach_fl sc s -> aget d (f_devs (fst s)) = Some x -> ValInv x /\ EndValInv x.
Proof. intros sc s d x H Hx. destruct (reach_dev sc s d x H Hx) as [_ [_ [V [_ [_ E]]]]]. split; assumption. Qed.

Print Assumptions C16_history_meaning.
Print Assumptions C16_history_event.
Print Assumptions C16_history_step.
Print Assumptions C16_source_sink_event.
Print Assumptions C16_source_sink_step.
Print Assumptions C16_supplied.
Print Assumptions C16_received.
Print Assumptions C16_batch_value.
Print Assumptions C16_maintainer_cost.
Print Assumptions C16_net_value_is_sum.

Print Assumptions C16_always.
Example C16_nonvacuous :
  let s := t_accept_sink 8 (ISingle (mkPart 5 24 8 [] [])) (t_accept_sink 4 (ISingle (mkPart 4 16 8 [] [])) (blank_dev KSink)) in
  ValInv s /\ EndValInv s /\ d_value s = 40 /\ length (d_vhist s) = 2%nat.
Proof. unfold ValInv, EndValInv. cbn. repeat split; try lia; try discriminate. Qed.
