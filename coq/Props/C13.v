(** C13 — Shutdown, failure and restore: machine state, lost parts, uptime accounting.  Statements only. *)
From Coq Require Import ZArith List Bool Lia.
From RecordUpdate Require Import RecordUpdate.
From SimVerif Require Import Model.Base Model.Env Model.FamEnv Model.RM Model.Maint Model.FloorTypes Model.Floor Model.FamFloor.
From SimVerif Require Import Proofs.FloorReach Proofs.FloorSteps Proofs.FloorInv Proofs.FloorSys Proofs.FloorProc Proofs.MaintInv.
Import ListNotations.
Open Scope Z_scope.

(** while shut down (maintenance or failed) a processor accepts no part — the offer changes nothing — and
    releases no part *)
Theorem C13_shut_accepts_nothing : forall fuel nw w d it,
  d_kind (getd w d) = KProcessor -> d_shut (getd w d) = true -> f_err w = 0 -> give (S fuel) nw w d it = (w, false).
Proof. exact shut_refuses. Qed.
Theorem C13_shut_releases_nothing : forall fuel nw w d,
  d_kind (getd w d) = KProcessor -> d_shut (getd w d) = true -> pass_part fuel nw w d = w.
Proof. exact shut_keeps_output. Qed.

(** a failure discards exactly the part in process, keeps an already finished part, leaves the processor shut down *)
Theorem C13_failure_effect : forall nw w d,
  d_kind (getd w d) = KProcessor -> amem d (f_devs w) = true ->
  let w' := fail nw w d in
  d_part (getd w' d) = None /\ d_out (getd w' d) = d_out (getd w d) /\ d_shut (getd w' d) = true.
Proof. exact fail_effect. Qed.

(** repeated shutdown or restore calls are no-ops *)
Theorem C13_shutdown_again : forall nw lost w d, d_shut (getd w d) = true -> shutdown nw false lost w d = w.
Proof. exact shutdown_again_noop. Qed.
Theorem C13_restore_again : forall fuel nw w d, d_shut (getd w d) = false -> restore fuel nw w d = w.
Proof. exact restore_again_noop. Qed.

(** the bookkeeping invariant of a processor: shut down <-> the uptime clock is stopped;
    the utilisation clock runs <-> operational with a part in process *)
Theorem C13_clock_invariant_meaning : forall x, AcctInv x -> d_kind x = KProcessor ->
  (d_shut x = true <-> d_last_restore x = None) /\
  (d_last_use x <> None <-> (d_shut x = false /\ d_part x <> None)).
Proof. intros x H K. exact (H K). Qed.
Theorem C13_clock_invariant_event : forall nw fuel uops a w, DevInv AcctInv w -> DevInv AcctInv (exec_fact fuel uops a w nw).
Proof. intros. apply exec_DevInv; [apply stable_AcctInv|assumption]. Qed.
Theorem C13_clock_invariant_step : forall sc ws s r,
  DevInv AcctInv (fst s) -> step ws (exec_fl sc) fl_wfail s = Some r -> DevInv AcctInv (fst (res_val r)).
Proof. intros sc ws. apply (step_DevInv sc ws AcctInv stable_AcctInv). Qed.

(** accounting: the uptime / utilisation a processor reports ([up_total], [use_total]: accumulated time +
    running stretch, exactly the getters) is unchanged by whatever an event action does at its instant ... *)
Theorem C13_accounting_event : forall nw fuel uops a w d x,
  DevInv AcctInv w -> aget d (f_devs w) = Some x ->
  exists x', aget d (f_devs (exec_fact fuel uops a w nw)) = Some x' /\ acct_rel nw x x'.
Proof. exact exec_acct. Qed.

(** ... and between events grows by exactly the elapsed time while operational (uptime), respectively
    while operational with a part in process (utilisation): so at every instant uptime equals the total
    time the processor was operational and utilisation the total time it spent processing *)
Theorem C13_accounting_time : forall nw dt x,
  AcctInv x -> d_kind x = KProcessor ->
  up_total (nw + dt) x = up_total nw x + (if d_shut x then 0 else dt) /\
  use_total (nw + dt) x = use_total nw x +
    (if negb (d_shut x) && (match d_part x with Some _ => true | None => false end) then dt else 0).
Proof. exact time_advance_acct. Qed.

(** a default work order: the maintainer schedules FINISH_WORK exactly duration after the start (C12_start),
    start_work = shutdown and end_work = restore_functionality (definitions [maint_start], [maint_finish]) *)
Theorem C13_work_order_window : forall nw wo costv durv m,
  m_out (m_start_post nw wo durv (m_start_pre nw wo costv m)) =
  MSched (nw + durv) P_FINISH_WORK (MFinish wo) :: MData L_START_WORK [nw; wo_target wo; wo_tag wo; wo_info wo] :: m_out m.
Proof. intros. destruct (m_start_frame nw wo costv durv m) as [_ [_ [_ [_ [_ [_ O]]]]]]. exact O. Qed.

(** the clock invariant in every reachable state of every well-formed scenario *)
Theorem C13_clock_invariant_always : forall sc s d x, reach_fl sc s -> aget d (f_devs (fst s)) = Some x -> AcctInv x.
Proof. intros sc s d x H Hx. exact (proj1 (proj2 (proj2 (proj2 (proj2 (reach_dev sc s d x H Hx)))))). Qed.

(** a processor constructed while the simulation is in progress (at [nw], between two events): right after its construction it
    reports as uptime and utilisation what it had accumulated before — nothing for a fresh device; the time before its creation is not
    counted, and from there [C13_accounting_time] and [C13_accounting_event] apply as for any other processor *)
Theorem C13_late_processor_clocks_start_at_creation : forall sc s d ups x,
  reach_fl sc s -> aget d (f_devs (fst s)) = Some x -> d_kind x = KProcessor -> d_live x = false -> pristine x = true ->
  d_up x = [] -> d_down x = [] ->
  let nw := now (snd s) in
  exists x', aget d (f_devs (late_create (fl_fuel (fst s)) nw (fst s) d ups)) = Some x' /\ d_kind x' = KProcessor /\
             up_total nw x' = d_uptime x /\ use_total nw x' = d_inuse x.
Proof. intros sc s d ups x HR. apply late_create_clock. apply (reach_good sc s HR). Qed.
Print Assumptions C13_late_processor_clocks_start_at_creation.

Print Assumptions C13_shut_accepts_nothing.
Print Assumptions C13_shut_releases_nothing.
Print Assumptions C13_failure_effect.
Print Assumptions C13_shutdown_again.
Print Assumptions C13_restore_again.
Print Assumptions C13_clock_invariant_meaning.
Print Assumptions C13_clock_invariant_event.
Print Assumptions C13_clock_invariant_step.
Print Assumptions C13_accounting_event.
Print Assumptions C13_accounting_time.
Print Assumptions C13_work_order_window.

Print Assumptions C13_clock_invariant_always.
(** Non-vacuity: a processor that worked 8, was shut down 16, then restored: uptime 8 at time 24, and the
    invariant holds along the way. *)
Example C13_nonvacuous :
  let p0 := (blank_dev KProcessor) in
  let p1 := t_shutdown 8 p0 in
  let p2 := t_restore 24 p1 in
  AcctInv p0 /\ AcctInv p1 /\ AcctInv p2 /\ up_total 24 p2 = 8 /\ up_total 40 p2 = 24 /\ d_shut p1 = true.
Proof. unfold AcctInv, up_total. cbn. repeat split; intros; try discriminate; try congruence; try lia; intuition congruence. Qed.
