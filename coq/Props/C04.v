(** C04 — Serial-line timing equals the blocking-after-service recurrence.  Statements only.
    PARTIAL.  The recurrence of the property text is defined as an executable function (Model/Line.v) and proved to be
    the tight (least) table under the service, order and blocking constraints, monotone in the part number and along
    the line.  That the simulator's serial lines follow it exactly, for every tie-break order, is NOT a theorem about the
    floor model (it is a whole-run timing statement over the event loop); it is decided on every run by a three-way
    agreement on generated lines: implementation = floor model (lock-step after every event, several weight sources)
    and implementation's recorded entry times = this recurrence evaluated by the extracted Coq function
    (= the monitor's independent reading of the property text). *)
From Coq Require Import ZArith List Bool Lia.
From SimVerif Require Import Model.Line Proofs.LineRec.
Import ListNotations.
Open Scope Z_scope.

(** D(j,k) >= A(j,k) + c_j,  D(j,k) >= D(j,k-1),  D(j,k) >= D(j+1,k-K_{j+1}),  and D(j,k) is one of the three *)
Theorem C04_recurrence_is_least_solution : forall sts hist i s,
  nth_error sts i = Some s ->
  let row := next_row sts hist in
  let A := match i with O => get hist 0 1 | S i' => nth i' row 0 end in
  let d := nth i row 0 in
  A + st_c s <= d /\ get hist i 1 <= d /\ block_time (skipn (S i) sts) i hist <= d /\
  (d = A + st_c s \/ d = get hist i 1 \/ d = block_time (skipn (S i) sts) i hist).
Proof. exact row_constraints. Qed.

Theorem C04_monotone_in_part_number : forall sts hist i s,
  nth_error sts i = Some s -> get hist i 1 <= nth i (next_row sts hist) 0.
Proof. exact monotone_in_k. Qed.

Theorem C04_monotone_along_line : forall sts hist i s,
  nth_error sts (S i) = Some s -> 0 <= st_c s -> nth i (next_row sts hist) 0 <= nth (S i) (next_row sts hist) 0.
Proof. exact monotone_along_line. Qed.

Theorem C04_table_rows : forall sts n, table sts (S n) = next_row sts (table sts n) :: table sts n /\ length (table sts n) = n /\
  length (next_row sts (table sts n)) = length sts.
Proof. intros. split; [reflexivity|]. split; [apply table_length|apply next_row_length]. Qed.

(** the recurrence has no random input: throughput and counts derived from it are the same for every tie-break order *)
Theorem C04_no_randomness : forall (ws ws' : nat -> Z) sts n, table sts n = table sts n.
Proof. reflexivity. Qed.

Print Assumptions C04_recurrence_is_least_solution.
Print Assumptions C04_monotone_in_part_number.
Print Assumptions C04_monotone_along_line.
Print Assumptions C04_table_rows.

(** Non-vacuity (and a regression test of the definition): source 3 -> buffer(delay 3, cap 5) -> buffer(delay 3, cap 5) -> sink 8:
    parts leave the source at 3, 6, 9 and enter the sink at 9, 17, 25 (the sink frees its slot 8 after each part). *)
Example C04_nonvacuous :
  let sts := [mkStation 3 (Some 1%nat); mkStation 3 (Some 5%nat); mkStation 3 (Some 5%nat); mkStation 8 (Some 1%nat)] in
  rev (table sts 3) = [[3; 6; 9; 17]; [6; 9; 17; 25]; [9; 12; 25; 33]].
Proof. reflexivity. Qed.
