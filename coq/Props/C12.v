(** C12 — Maintainer: capacity, one order per target, request order, exact durations.
    Statements only. *)
From Coq Require Import ZArith List Bool Lia Sorting.Permutation.
From SimVerif Require Import Model.Base Model.Env Model.FamEnv Model.Maint Model.FamMaint.
From SimVerif Require Import Proofs.EnvInv Proofs.MaintInv Proofs.MaintSys.
Import ListNotations.
Open Scope Z_scope.

(** what the invariant says: capacity in use = sum over orders in progress, never above the
    maintainer's capacity, no target with two orders in progress, and nothing startable waits *)
Theorem C12_invariant_meaning : forall m, MInv m ->
  m_util m = cap_sum (m_active m) /\
  NoDup (map wo_target (m_active m)) /\
  match m_capacity m with Some c => m_util m <= c | None => True end /\
  Forall (fun wo => cap_fits (m_capacity m) (m_util m) (wo_cap wo) = false \/
                    target_busy (m_active m) (wo_target wo) = true) (m_queue m).
Proof. intros m [[U T _ _ _ C] S]. auto. Qed.

Theorem C12_init : forall capacity value,
  match capacity with Some c => 0 <= c | None => True end -> MInv (init_mst capacity value).
Proof. exact MInv_init. Qed.

(** create_work_order returns exactly "no identical (target, tag) order is queued or in progress";
    a rejected request changes nothing; an accepted one goes to the back of the queue *)
Theorem C12_create_result : forall nw t g capv info m,
  snd (m_create nw t g capv info m) = negb (is_requested m t g) /\
  (is_requested m t g = true -> fst (m_create nw t g capv info m) = m).
Proof. exact m_create_result. Qed.

Theorem C12_is_requested_meaning : forall m t g,
  is_requested m t g = true <-> exists wo, In wo (m_queue m ++ m_active m) /\ wo_target wo = t /\ wo_tag wo = g.
Proof. exact is_requested_spec. Qed.

Theorem C12_create_appends : forall nw t g capv info m,
  is_requested m t g = false ->
  exists m2, m_queue m2 = m_queue m ++ [mkWO (m_next m) t g capv info] /\ m_active m2 = m_active m /\
             m_util m2 = m_util m /\ fst (m_create nw t g capv info m) = m_try nw m2.
Proof. exact m_create_appends. Qed.

(** the scan starts orders in request order, skipping only those that do not fit or whose target
    is busy: kept and selected orders partition the queue in order; one START_WORK event per
    selected order at the current instant *)
Theorem C12_scan_order : forall nw m,
  exists sel, m_active (m_try nw m) = m_active m ++ sel /\ split_in_order (m_queue m) (m_queue (m_try nw m)) sel /\
              m_out (m_try nw m) = rev (map (fun wo => MSched nw P_START_WORK (MStart wo)) sel) ++ m_out m.
Proof. exact m_try_events. Qed.

Theorem C12_scan_invariant : forall nw m, MCore m -> MInv (m_try nw m).
Proof. exact m_try_inv. Qed.

Theorem C12_create_invariant : forall nw t g capv info m, MInv m -> 0 <= capv -> MInv (fst (m_create nw t g capv info m)).
Proof. exact m_create_inv. Qed.

(** a started order: cost charged once, exactly one FINISH_WORK event at start + reported duration,
    queue / active list / capacity in use untouched *)
Theorem C12_start : forall nw wo costv durv m,
  let m1 := m_start_pre nw wo costv m in
  let m2 := m_start_post nw wo durv m1 in
  m_queue m2 = m_queue m /\ m_active m2 = m_active m /\ m_util m2 = m_util m /\ m_capacity m2 = m_capacity m /\
  m_next m2 = m_next m /\ m_value m2 = m_value m - costv /\
  m_out m2 = MSched (nw + durv) P_FINISH_WORK (MFinish wo) :: MData L_START_WORK [nw; wo_target wo; wo_tag wo; wo_info wo] :: m_out m.
Proof. exact m_start_frame. Qed.

Theorem C12_finish_invariant : forall nw wo m, MInv m -> In wo (m_active m) -> MInv (m_finish_post nw wo m).
Proof. exact m_finish_inv. Qed.

(** hooks: exactly one call per executed START_WORK / FINISH_WORK event, whatever the hook requests *)
Theorem C12_hook_once : forall tb nw kind t g reqs w,
  w_hooks (run_hook tb nw kind t g reqs w) = (kind, t, g, nw) :: w_hooks w.
Proof. exact run_hook_log. Qed.

(** system level: after every executed event (for every table of durations / capacities / costs /
    hook requests, every tie-break weight) the maintainer invariant holds and every order in
    progress has exactly one live START_WORK or FINISH_WORK event — so it is started once and
    finished once *)
Theorem C12_system_step : forall tb ws, tb_ok tb ->
  forall s s', SysM s -> step ws (exec_mt tb) (fun _ => false) s = Some (Ok s') -> SysM s'.
Proof. exact step_SysM. Qed.

Print Assumptions C12_invariant_meaning.
Print Assumptions C12_init.
Print Assumptions C12_create_result.
Print Assumptions C12_is_requested_meaning.
Print Assumptions C12_create_appends.
Print Assumptions C12_scan_order.
Print Assumptions C12_scan_invariant.
Print Assumptions C12_create_invariant.
Print Assumptions C12_start.
Print Assumptions C12_finish_invariant.
Print Assumptions C12_hook_once.
Print Assumptions C12_system_step.

(** Non-vacuity: capacity 2, three requests of 1,2,1: the second does not fit and is skipped, the third starts. *)
Example C12_nonvacuous :
  let m0 := init_mst (Some 16) 0 in
  let m1 := fst (m_create 0 0 0 8 0 m0) in
  let m2 := fst (m_create 0 1 0 16 0 m1) in
  let m3 := fst (m_create 0 2 0 8 0 m2) in
  map wo_target (m_active m3) = [0; 2] /\ map wo_target (m_queue m3) = [1] /\ m_util m3 = 16.
Proof. vm_compute. repeat split. Qed.
