(** C17 — Batching keeps order and exact batch sizes.  Statements only. *)
From Coq Require Import ZArith List Bool Lia.
From RecordUpdate Require Import RecordUpdate.
From SimVerif Require Import Model.Base Model.Env Model.FamEnv Model.RM Model.Maint Model.FloorTypes Model.Floor Model.FamFloor.
From SimVerif Require Import Proofs.FloorReach Proofs.FloorSteps Proofs.FloorInv Proofs.FloorSys Proofs.FloorHist.
Import ListNotations.
Open Scope Z_scope.

(** a batcher configured for single parts only ever offers single parts; configured with size n it
    offers batches of exactly n parts and its unfinished batch has fewer than n *)
Theorem C17_sizes_meaning : forall x, BatchInv x -> d_kind x = KBatcher ->
  match d_batch_size x with
  | None => (forall it, d_out x = Some it -> is_batch it = false)
  | Some n =>
    1 <= n /\
    (forall it, d_out x = Some it -> is_batch it = true /\ item_count it = n) /\
    (forall it, d_inprog x = Some it -> is_batch it = true /\ item_count it < n)
  end.
Proof. intros x H K. exact (H K). Qed.

Theorem C17_sizes_event : forall nw fuel uops a w, DevInv BatchInv w -> DevInv BatchInv (exec_fact fuel uops a w nw).
Proof. intros. apply exec_DevInv; [apply stable_BatchInv|assumption]. Qed.
Theorem C17_sizes_step : forall sc ws s r,
  DevInv BatchInv (fst s) -> step ws (exec_fl sc) fl_wfail s = Some r -> DevInv BatchInv (fst (res_val r)).
Proof. intros sc ws. apply (step_DevInv sc ws BatchInv stable_BatchInv). Qed.

(** the batcher takes parts out of its input front to back: the next part moved is the head of the
    input batch (or the single input part), the rest stays in order *)
Theorem C17_unpack_front_to_back : forall it0 p rest, batch_take it0 = Some (p, rest) ->
  item_parts it0 = p :: match rest with Some r => item_parts r | None => [] end.
Proof.
  intros [q|b [|q ps]] p rest H; cbn in H; try discriminate; injection H as <- <-; cbn; [reflexivity|].
  destruct ps; reflexivity.
Qed.

(** ... and appends it at the back of the unfinished output batch (transformers [t_batch_full] /
    [t_batch_more] are only ever applied with the old contents followed by the new part: see the guards
    of [dp_batch_full] / [dp_batch_more] in Proofs/FloorSteps.v, discharged for every call site) *)
Theorem C17_append_at_back : forall rest b ps p x,
  item_parts (match d_inprog (t_batch_more rest b (ps ++ [p]) x) with Some it => it | None => ISingle p end) = ps ++ [p] /\
  item_parts (match d_out (t_batch_full rest b (ps ++ [p]) x) with Some it => it | None => ISingle p end) = ps ++ [p].
Proof. intros. cbn. auto. Qed.

(** new input is accepted only when there is nothing left to unpack and nothing waiting to leave *)
Theorem C17_accept_only_when_empty : forall x, handler_can_accept x = true -> d_part x = None /\ d_out x = None.
Proof. exact handler_can_accept_slots. Qed.

(** buffers and sinks count every part of a batch; routing-history updates reach every part of a batch *)
Theorem C17_buffer_counts_parts : forall nw it x, d_level (t_accept_buffer nw it x) = d_level x + item_count it.
Proof. intros. cbn. lia. Qed.
Theorem C17_sink_counts_parts : forall nw it x, d_received (t_accept_sink nw it x) = d_received x + item_count it.
Proof. intros. apply sink_accept_value. Qed.
Theorem C17_count_is_number_of_parts : forall b ps, item_count (IBatch b ps) = Z.of_nat (length ps).
Proof. reflexivity. Qed.
Theorem C17_history_reaches_all_parts : forall d b ps,
  item_add_hist d (IBatch b ps) = IBatch (part_add_hist d b) (map (part_add_hist d) ps) /\
  item_pop_hist (IBatch b ps) = IBatch (part_pop_hist b) (map part_pop_hist ps).
Proof. intros. split; reflexivity. Qed.

(** the batcher invariant in every reachable state of every well-formed scenario *)
Theorem C17_always : forall sc s d x, reach_fl sc s -> aget d (f_devs (fst s)) = Some x -> BatchInv x.
Proof. intros sc s d x H Hx. exact (proj1 (proj2 (proj2 (proj2 (reach_dev sc s d x H Hx))))). Qed.

Print Assumptions C17_sizes_meaning.
Print Assumptions C17_sizes_event.
Print Assumptions C17_sizes_step.
Print Assumptions C17_unpack_front_to_back.
Print Assumptions C17_append_at_back.
Print Assumptions C17_accept_only_when_empty.
Print Assumptions C17_buffer_counts_parts.
Print Assumptions C17_sink_counts_parts.
Print Assumptions C17_count_is_number_of_parts.
Print Assumptions C17_history_reaches_all_parts.

Print Assumptions C17_always.
(** Non-vacuity: a batcher of size 2 fed a batch of 3 single parts emits [1;2] and keeps [3] unfinished. *)
Example C17_nonvacuous :
  let p i := mkPart i 0 8 [] [] in
  let x0 := (blank_dev KBatcher) <| d_batch_size := Some 2 |> <| d_part := Some (IBatch (mkPart 9 0 0 [] []) [p 1; p 2; p 3]) |> in
  let w0 := mkFw [(1, x0)] [] init_rs [] 9 [] [] 0 in
  let w1 := batcher_fill 5 w0 1 in
  option_map item_parts (d_out (getd w1 1)) = Some [p 1; p 2] /\ BatchInv (getd w1 1) /\
  option_map item_parts (d_part (getd w1 1)) = Some [p 3].
Proof.
  vm_compute. split; [reflexivity|]. split; [|reflexivity].
  intros _. split; [discriminate|]. split; intros it E; [injection E as <-; split; reflexivity|discriminate].
Qed.

(** * a batch's routing-history updates are applied to all the parts it contains: in every reachable state of every well-formed
    scenario, every part of a batch that device [d] holds (in a slot, in a buffer, or — a batcher — in the batch being filled) has a
    history ending with [d], like a part travelling alone (Proofs/FloorHist.v; the batch object itself is only a carrier) *)
Theorem C17_batch_parts_follow_the_batch : forall sc s d x b ps p,
  reach_fl sc s -> aget d (f_devs (fst s)) = Some x ->
  d_part x = Some (IBatch b ps) \/ d_out x = Some (IBatch b ps) \/ d_inprog x = Some (IBatch b ps) \/ (exists t, In (t, IBatch b ps) (d_buf x)) ->
  In p ps -> exists h, p_hist p = h ++ [d].
Proof. intros sc s d x b ps p HR Hx HS Hp. exact (held_part_history_ends_here sc s d x (IBatch b ps) p HR Hx HS Hp). Qed.
Print Assumptions C17_batch_parts_follow_the_batch.
