(** C01 — Events run in time-then-priority order; the clock never goes backwards.
    Statements only; every proof is [exact] of a lemma in Proofs/.  Quantified
    over every action type [A], world [W], action behaviour [exec] (any list of
    schedule / pause / unpause / cancel / datapoint calls, i.e. calls issued
    from inside event actions), weight source [wsrc] (every outcome of the
    random tie-break) and every reachable state (any interleaving of steps,
    external calls and run prologues). *)
From Coq Require Import ZArith List Bool Lia Sorting.Sorted.
From SimVerif Require Import Model.Base Model.Env Proofs.EnvInv Proofs.EnvRun.
Import ListNotations.
Open Scope Z_scope.

Section C01.
  Variables (A W : Type) (wsrc : nat -> Z) (exec : A -> W -> Z -> W * list (cmd A)) (wfail : W -> bool).

  (** In every reachable state the pending events are sorted by (time up, priority
      down, weight up, asset id up), none is due before the clock, paused events
      can be resumed without landing in the past, and event identities are unique
      across pending, paused and dispatched events. *)
  Theorem C01_invariant : forall s, reach A W wsrc exec wfail s -> Inv A (snd s).
  Proof. exact (reach_inv A W wsrc exec wfail). Qed.

  (** step executes the pending event with the smallest time and, among those due
      at the same instant, the highest priority; the clock was not ahead of it. *)
  Theorem C01_step_takes_minimum : forall s r e q,
    reach A W wsrc exec wfail s -> queue (snd s) = e :: q -> step wsrc exec wfail s = Some r ->
    (forall e', In e' q -> le_ev A e e') /\
    (forall e', In e' q -> e_time e <= e_time e') /\
    (forall e', In e' q -> e_time e' = e_time e -> e_prio e' <= e_prio e) /\
    now (snd s) <= e_time e.
  Proof. exact (step_takes_minimum A W wsrc exec wfail). Qed.

  (** the clock equals the time of the event being executed ... *)
  Theorem C01_clock_is_event_time : forall s r e q,
    queue (snd s) = e :: q -> step wsrc exec wfail s = Some r -> now (snd (res_val r)) = e_time e.
  Proof. exact (step_clock A W wsrc exec wfail). Qed.

  (** ... and never decreases *)
  Theorem C01_clock_monotone : forall s r,
    reach A W wsrc exec wfail s -> step wsrc exec wfail s = Some r -> now (snd s) <= now (snd (res_val r)).
  Proof. exact (clock_monotone A W wsrc exec wfail). Qed.

  (** scheduling before the current time is rejected (ValueError) and changes nothing;
      scheduling at or after it is accepted *)
  Theorem C01_schedule_past_rejected : forall (en : env A) t p a act,
    t < now en -> schedule wsrc en t p a act = Err en.
  Proof. exact (schedule_past_rejected A wsrc). Qed.

  Theorem C01_schedule_accepted_iff : forall (en : env A) t p a act,
    (exists en', schedule wsrc en t p a act = Ok en') <-> now en <= t.
  Proof. exact (schedule_ok_iff A wsrc). Qed.

  (** an event is dispatched at most once and never pending again afterwards *)
  Theorem C01_at_most_once : forall s,
    reach A W wsrc exec wfail s ->
    NoDup (map e_id (dispatched (snd s))) /\
    (forall e e', In e (dispatched (snd s)) -> In e' (queue (snd s) ++ paused (snd s)) -> e_id e <> e_id e').
  Proof. exact (at_most_once A W wsrc exec wfail). Qed.

  (** run d from t0: ends at exactly t0+d, everything due by then (also events
      created while running) has been dispatched, nothing due later has.  For
      actions that stay off asset id -1 and use priorities above TERMINATE. *)
  Theorem C01_run_post :
    (forall a w t, Forall (cmd_ok A) (snd (exec a w t))) ->
    forall fuel d w (en : env A) s',
    Inv A en -> 0 <= d ->
    (forall e, In e (queue en ++ paused en) -> ev_ok A e) ->
    run wsrc exec wfail fuel d (w, en) = Some (Ok s') ->
    now (snd s') = now en + d /\
    terminated (snd s') = true /\
    (forall e, In e (queue (snd s')) -> now en + d < e_time e) /\
    (forall e, In e (dispatched (snd s')) -> e_time e <= now en + d) /\
    Inv A (snd s').
  Proof. exact (run_post A W wsrc exec wfail). Qed.
End C01.

Print Assumptions C01_invariant.
Print Assumptions C01_step_takes_minimum.
Print Assumptions C01_clock_is_event_time.
Print Assumptions C01_clock_monotone.
Print Assumptions C01_schedule_past_rejected.
Print Assumptions C01_schedule_accepted_iff.
Print Assumptions C01_at_most_once.
Print Assumptions C01_run_post.

(** Non-vacuity: a concrete run of the F_env model meets the hypotheses of
    [C01_run_post] and produces a non-trivial result. *)
From SimVerif Require Import Model.FamEnv.
Example C01_run_nonvacuous :
  let script := [[TSchedRel 8 112 1 1%nat]; [TSchedRel 0 128 2 0%nat]] in
  let ws := wgen 3 3 in
  match schedule ws init_env 0 112 1 (Some 0%nat) with
  | Ok en =>
    match run ws (exec_env script) (fun _ => false) 100 40 ([], en) with
    | Some (Ok s') => now (snd s') = 40 /\ length (fst s') = 11%nat
    | _ => False
    end
  | Err _ => False
  end.
Proof. vm_compute. split; reflexivity. Qed.
