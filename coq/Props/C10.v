(** C10 — Waiting resource requests are served: exactly once, in order, only when feasible.
    Statements only.  Registration numbers ([we_id], [ce_id]) and the pools recorded in
    a log entry are ghosts: no model function branches on them. *)
From Coq Require Import ZArith List Bool Lia Sorting.Sorted.
From SimVerif Require Import Model.Base Model.Env Model.FamEnv Model.RM Model.FamRM.
From SimVerif Require Import Proofs.EnvInv Proofs.RMInv Proofs.RMScan Proofs.RMSys.
Import ListNotations.
Open Scope Z_scope.

(** a callback is invoked only for a request that fits at that very moment, and it receives
    the stored copy of the request (by construction of [check_pending]: [ce_req] is the waiting entry's request) *)
Theorem C10_only_when_feasible : forall cbs nw fuel i s,
  Forall cb_ok (r_cblog s) -> Forall cb_ok (r_cblog (check_pending fuel cbs nw i s)).
Proof. exact check_only_feasible. Qed.

(** exactly once: no registration is ever invoked twice, invoked registrations leave the waiting
    list, waiting ones have not been invoked; whatever the callbacks do (reserve, release, change
    capacity, register further requests) *)
Theorem C10_exactly_once : forall cbs nw fuel i s,
  WInv s -> r_err (check_pending fuel cbs nw i s) = 0 -> WInv (check_pending fuel cbs nw i s).
Proof. exact check_pending_WInv. Qed.

Theorem C10_bookkeeping_meaning : forall s, WInv s ->
  NoDup (map ce_id (r_cblog s)) /\
  (forall e c, In e (r_wait s) -> In c (r_cblog s) -> we_id e <> ce_id c) /\
  StronglySorted lt (map we_id (r_wait s)).
Proof. intros s [A _ _ B C]. auto. Qed.

Theorem C10_ops_keep_bookkeeping : forall nw arg os s, WInv s -> WInv (run_rops nw arg os s).
Proof. intros nw arg os s I. eapply appended_WInv; [apply run_rops_appended|exact I]. Qed.

(** requests that become feasible together are called back in registration order *)
Theorem C10_registration_order : forall cbs nw fuel s,
  WInv s -> r_err (check_pending fuel cbs nw 0 s) = 0 ->
  exists new, r_cblog (check_pending fuel cbs nw 0 s) = new ++ r_cblog s /\ StronglySorted gt (map ce_id new).
Proof.
  intros cbs nw fuel s I E. apply (check_pending_order cbs nw fuel (r_cblog s) 0 s I); [|exact E].
  exists []. split; [reflexivity|]. split; [constructor|]. intros c e [].
Qed.

(** after a complete check either no waiting request fits, or a further check has been scheduled
    at the same instant (by a release, capacity change or registration made inside a callback) *)
Theorem C10_check_complete : forall cbs nw fuel s,
  (forall k, Forall rop_wf (cbs k)) -> RInv s -> r_env s = true ->
  r_err (check_pending fuel cbs nw 0 s) = 0 ->
  Chk nw (check_pending fuel cbs nw 0 s) \/
  infeasible_all (r_pools (check_pending fuel cbs nw 0 s)) (r_wait (check_pending fuel cbs nw 0 s)).
Proof.
  intros cbs nw fuel s WF I EN E. apply check_pending_complete; auto. right. constructor.
Qed.

(** every operation schedules a check at the current instant or cannot make a waiting request feasible *)
Theorem C10_every_change_triggers_check : forall nw arg o s,
  RInv s -> rop_wf o -> r_env s = true ->
  Chk nw (run_rop nw arg o s) \/ quiet s (run_rop nw arg o s).
Proof. exact run_rop_chk_or_quiet. Qed.

(** system level (manager + event queue): the invariant "nothing feasible is waiting, or a check is
    pending at the current instant" holds after initialisation, after every executed event and
    after every external call ... *)
Theorem C10_system_invariant_step : forall sc ws,
  (forall k, Forall rop_wf (nth k (rq_cbs sc) [])) -> (forall k, Forall rop_wf (nth k (rq_def sc) [])) ->
  forall s s', SysInv s -> step ws (exec_rm sc) rm_wfail s = Some (Ok s') -> SysInv s'.
Proof. exact step_SysInv. Qed.

Theorem C10_system_invariant_external : forall ws (w : rs) (en en2 : env ract) o,
  SysInv (w, en) -> rop_wf o ->
  let w1 := run_rop (now en) [] o w in
  r_err w1 = 0 -> apply_cmds ws en (map to_cmd (rev (r_out w1))) = Ok en2 ->
  SysInv (fst (flush w1), en2).
Proof. exact external_op_SysInv. Qed.

Theorem C10_system_invariant_init : forall ws (w : rs) (en en2 : env ract),
  RInv w -> r_err w = 0 -> r_out w = [] -> r_wait w = [] -> Inv ract en ->
  apply_cmds ws en (map to_cmd (rev (r_out (rm_initialize (now en) w)))) = Ok en2 ->
  r_err (rm_initialize (now en) w) = 0 ->
  SysInv (fst (flush (rm_initialize (now en) w)), en2).
Proof. exact init_SysInv. Qed.

(** ... hence when the clock is about to advance no feasible request is still waiting *)
Theorem C10_time_advance : forall (w : rs) (en : env ract) e q,
  SysInv (w, en) -> queue en = e :: q -> now en < e_time e ->
  infeasible_all (r_pools w) (r_wait w).
Proof. exact time_advance_none_feasible. Qed.

Print Assumptions C10_only_when_feasible.
Print Assumptions C10_exactly_once.
Print Assumptions C10_bookkeeping_meaning.
Print Assumptions C10_ops_keep_bookkeeping.
Print Assumptions C10_registration_order.
Print Assumptions C10_check_complete.
Print Assumptions C10_every_change_triggers_check.
Print Assumptions C10_system_invariant_step.
Print Assumptions C10_system_invariant_external.
Print Assumptions C10_system_invariant_init.
Print Assumptions C10_time_advance.

(** Non-vacuity: two waiting requests become feasible together after a release made by the first
    callback's predecessor; they are called in registration order, each once. *)
Example C10_nonvacuous :
  let cbs := fun k : nat => [RReserveArg (Z.of_nat k)] in
  let s0 := run_rops 0 [] [RAdd 0 16; RReserve 5 [(0, 16)]] (set_env init_rs true) in
  let s1 := run_rops 0 [] [RRegister 0 [(0, 8)]; RRegister 1 [(0, 8)]; RReleaseAll 5] s0 in
  let s2 := check_pending 50 cbs 0 0 s1 in
  r_err s2 = 0 /\ map ce_id (rev (r_cblog s2)) = [0%nat; 1%nat] /\ r_wait s2 = [] /\ usage (r_pools s2) 0 = 16.
Proof. vm_compute. repeat split. Qed.
