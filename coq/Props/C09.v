(** C09 — Resource pools: usage equals outstanding reservations; requests are atomic.
    Statements only.  [RInv] is the pool invariant; it holds in every state
    reachable by any sequence of add / reserve / release / merge / register
    operations and availability checks whose callbacks perform any such
    operations.  Well-formedness [rop_wf]: request dictionaries have distinct
    keys (they are Python dicts) and merge is applied to two distinct
    reservations (the property's wording). *)
From Coq Require Import ZArith List Bool Lia.
From SimVerif Require Import Model.Base Model.Env Model.RM Proofs.RMInv.
Import ListNotations.
Open Scope Z_scope.

(** what the invariant says *)
Theorem C09_invariant_meaning : forall s, RInv s ->
  (forall m, usage (r_pools s) m = held_sum (r_res s) m) /\     (* usage = sum over outstanding reservations *)
  (forall m, 0 <= usage (r_pools s) m) /\                          (* never negative *)
  (forall m, 0 <= capacity (r_pools s) m).                         (* capacity never negative *)
Proof. intros s I. split; [apply I|]. split; [intro m; apply RInv_usage_nonneg, I|apply I]. Qed.

Theorem C09_init : RInv init_rs.
Proof. exact RInv_init. Qed.

(** preserved by every operation, every operation sequence, initialisation and every
    availability check (whatever the invoked callbacks do) *)
Theorem C09_op_preserves : forall nw arg o s, RInv s -> rop_wf o -> RInv (run_rop nw arg o s).
Proof. exact run_rop_inv. Qed.
Theorem C09_ops_preserve : forall nw arg os s, RInv s -> Forall rop_wf os -> RInv (run_rops nw arg os s).
Proof. exact run_rops_inv. Qed.
Theorem C09_check_preserves : forall cbs nw fuel i s,
  (forall k, Forall rop_wf (cbs k)) -> RInv s -> RInv (check_pending fuel cbs nw i s).
Proof. exact check_pending_inv. Qed.
Theorem C09_initialize_preserves : forall nw s, RInv s -> RInv (rm_initialize nw s).
Proof. exact rm_initialize_inv. Qed.

(** an operation that raises an error changes nothing (pools, reservations, waiting list, handles) *)
Theorem C09_error_changes_nothing : forall nw arg o s,
  RInv s -> rop_wf o -> r_err s = 0 -> r_err (run_rop nw arg o s) <> 0 -> same_core s (run_rop nw arg o s).
Proof. exact run_rop_error_changes_nothing. Qed.

(** reserve: succeeds exactly when every positive amount fits (and nothing is negative),
    then takes exactly the requested amounts; otherwise takes nothing *)
Theorem C09_reserve_spec : forall nw r s,
  RInv s -> r_err s = 0 ->
  let s' := fst (reserve nw r s) in let o := snd (reserve nw r s) in
  RInv s' /\
  (r_err s' <> 0 -> same_core s s' /\ o = None) /\
  (r_err s' = 0 -> o = None -> s' = s /\ ~ fits (r_pools s) (positive_part r)) /\
  (r_err s' = 0 -> o <> None ->
     o = Some (length (r_res s)) /\ fits (r_pools s) (positive_part r) /\ nonneg r /\
     r_res s' = r_res s ++ [positive_part r] /\
     (forall m, usage (r_pools s') m = usage (r_pools s) m + sumreq (positive_part r) m) /\
     (forall m, capacity (r_pools s') m = capacity (r_pools s) m) /\
     r_slots s' = r_slots s /\ r_wait s' = r_wait s).
Proof. exact reserve_spec. Qed.

Theorem C09_fits_meaning : forall p r, can_fulfill p r = true <-> fits p r.
Proof. exact can_fulfill_iff. Qed.

(** release gives back exactly what is released, from pool and reservation alike *)
Theorem C09_release_spec : forall nw i ro s,
  RInv s -> r_err s = 0 -> (i < length (r_res s))%nat ->
  (forall r, ro = Some r -> NoDup (map fst r)) ->
  let s' := release_obj nw i ro s in
  let held := nth i (r_res s) [] in
  RInv s' /\
  (r_err s' <> 0 -> same_core s s') /\
  (r_err s' = 0 ->
     let rel := match ro with None => held | Some r => r end in
     (forall m, usage (r_pools s') m = usage (r_pools s) m - sumreq rel m) /\
     (forall m, sumreq (nth i (r_res s') []) m = sumreq held m - sumreq rel m) /\
     (forall j, j <> i -> nth j (r_res s') [] = nth j (r_res s) []) /\
     length (r_res s') = length (r_res s) /\
     (forall m, capacity (r_pools s') m = capacity (r_pools s) m) /\
     r_slots s' = r_slots s /\ r_wait s' = r_wait s).
Proof. exact release_obj_spec. Qed.

(** merging two distinct reservations never changes usage; holdings move *)
Theorem C09_merge_spec : forall i j s,
  RInv s -> i <> j -> (i < length (r_res s))%nat -> (j < length (r_res s))%nat ->
  let s' := merge_obj i j s in
  RInv s' /\ r_pools s' = r_pools s /\
  (forall m, held_sum (r_res s') m = held_sum (r_res s) m) /\
  (forall m, sumreq (nth i (r_res s') []) m = sumreq (nth i (r_res s) []) m + sumreq (nth j (r_res s) []) m) /\
  nth j (r_res s') [] = [] /\ r_err s' = r_err s /\ r_slots s' = r_slots s /\ r_wait s' = r_wait s.
Proof. exact merge_obj_spec. Qed.

(** capacity changes: exactly the requested amount, never below zero *)
Theorem C09_add_spec : forall nw n a s,
  RInv s -> r_err s = 0 ->
  let s' := add_resources nw n a s in
  RInv s' /\
  (r_err s' <> 0 -> same_core s s') /\
  (r_err s' = 0 -> (forall m, usage (r_pools s') m = usage (r_pools s) m) /\
                   (forall m, capacity (r_pools s') m = if m =? n then capacity (r_pools s) n + a else capacity (r_pools s) m) /\
                   r_res s' = r_res s /\ r_slots s' = r_slots s /\ r_wait s' = r_wait s).
Proof. exact add_resources_spec. Qed.

(** usage exceeds capacity only after capacity was explicitly reduced *)
Theorem C09_no_overcommit : forall nw arg o s,
  RInv s -> rop_wf2 arg o -> ~ reduces_capacity o -> no_overcommit s -> no_overcommit (run_rop nw arg o s).
Proof. exact run_rop_no_overcommit. Qed.

Print Assumptions C09_invariant_meaning.
Print Assumptions C09_init.
Print Assumptions C09_op_preserves.
Print Assumptions C09_ops_preserve.
Print Assumptions C09_check_preserves.
Print Assumptions C09_initialize_preserves.
Print Assumptions C09_error_changes_nothing.
Print Assumptions C09_reserve_spec.
Print Assumptions C09_fits_meaning.
Print Assumptions C09_release_spec.
Print Assumptions C09_merge_spec.
Print Assumptions C09_add_spec.
Print Assumptions C09_no_overcommit.

(** Non-vacuity: a reachable state with two reservations, a partial release and a merge. *)
Example C09_nonvacuous :
  let ops := [RAdd 0 32; RAdd 1 16; RReserve 0 [(0, 8); (1, 8)]; RReserve 1 [(0, 16)];
              RRelease 0 [(0, 4)]; RMerge 0 1] in
  let s := run_rops 0 [] ops init_rs in
  Forall rop_wf ops /\ r_err s = 0 /\ usage (r_pools s) 0 = 20 /\ held_sum (r_res s) 0 = 20 /\
  nth 1 (r_res s) [] = [] /\ sumreq (nth 0 (r_res s) []) 0 = 20.
Proof.
  split; [|vm_compute; repeat split; reflexivity].
  repeat (apply Forall_cons; [cbn; try exact I|]); try apply Forall_nil.
  - constructor; [intros []|constructor].
  - discriminate.
Qed.
