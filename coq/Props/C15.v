(** C15 — Recorded simulation data mirrors what actually happened.  Statements only.
    PARTIAL: proved are: records are only ever appended during an action (never removed or rewritten); every record is
    written with the state of that moment (receive / level / failure / resource records); executed events are appended to
    the dispatch log in execution order (C01).  "Exactly one record per occurrence" and "counters = number of records" over
    whole runs are decided by the record monitor and by the lock-step (which compares the full data log after every event). *)
From Coq Require Import ZArith List Bool Lia Sorting.Permutation Sorting.Sorted.
From RecordUpdate Require Import RecordUpdate.
From SimVerif Require Import Model.Base Model.Env Model.FamEnv Model.RM Model.Maint Model.FloorTypes Model.Floor Model.FamFloor.
From SimVerif Require Import Proofs.RMInv Proofs.EnvInv Proofs.EnvPause Proofs.FloorSteps Proofs.FloorInv Proofs.FloorSys Proofs.FloorProc Proofs.FloorFlow Proofs.FloorRes.
Import ListNotations.
Open Scope Z_scope.

Theorem C15_records_only_appended : forall nw fuel uops a w, exists l, f_out (exec_fact fuel uops a w nw) = l ++ f_out w.
Proof. intros. apply (R_out_ext MFull nw), R_exec_fact. reflexivity. Qed.

Theorem C15_receive_record_payload : forall w l d nw it,
  f_out (rec_part w l d nw it) = FData l d [nw; item_id it; item_quality it; item_value it] :: f_out w.
Proof. exact rec_part_payload. Qed.

Theorem C15_level_record_is_level : forall nw w d it1,
  let w' := updd w d (t_accept_buffer nw it1) in
  f_out (data w' L_LEVEL d [nw; d_level (getd w' d)]) = FData L_LEVEL d [nw; d_level (getd w' d)] :: f_out w.
Proof. exact buffer_accept_level_record. Qed.

Theorem C15_failure_record : forall nw w d,
  d_kind (getd w d) = KProcessor ->
  exists l, f_out (fail nw w d) =
            l ++ FData L_FAILURE d [nw; match d_part (getd w d) with Some it => item_id it | None => -1 end]
              :: f_out (release_reserved nw (updd w d (t_fail_clear nw)) d).
Proof. exact fail_record. Qed.

(** the resource record written after a pool changed carries the pool's usage and capacity of that moment *)
Theorem C15_resource_record : forall nw n s,
  r_out (record nw n s) = RData L_RESOURCE_UPDATE n [nw; usage (r_pools s) n; capacity (r_pools s) n] :: r_out s.
Proof. reflexivity. Qed.

(** buffer level = number of parts stored (C05), so the level record counts stored parts *)
Theorem C15_level_counts_parts : forall nw fuel uops a w, DevInv BufInv w -> DevInv BufInv (exec_fact fuel uops a w nw).
Proof. intros. apply exec_DevInv; [apply stable_BufInv|assumption]. Qed.

Print Assumptions C15_records_only_appended.
Print Assumptions C15_receive_record_payload.
Print Assumptions C15_level_record_is_level.
Print Assumptions C15_failure_record.
Print Assumptions C15_resource_record.
Print Assumptions C15_level_counts_parts.

Example C15_nonvacuous :
  f_out (rec_part (mkFw [] [] init_rs [] 0 [] [] 0) L_RECEIVED 3 40 (ISingle (mkPart 9 16 8 [] []))) = [FData L_RECEIVED 3 [40; 9; 8; 16]].
Proof. reflexivity. Qed.
