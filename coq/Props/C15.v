(** C15 — Recorded simulation data mirrors what actually happened.  Statements only.
    Proved: records are only ever appended during an action (never removed or rewritten); every record is written with the
    state of that moment (receive / level / failure / resource records); executed events are appended to the dispatch log in
    execution order (C01); and, linking the devices to the data log (Proofs/FloorLog.v, FloorLogInv.v), for every state
    reached without a Python exception, including every state inside a run: **a source's produced-parts counter equals the
    number of its supplied-part records** and **the last recorded level of a buffer is its level**.
    PARTIAL: "exactly one received / produced / failure / work-order record per occurrence", the sink counter (it counts parts,
    the records count hand-overs: equal only without batches) and "last resource record = pool" over whole runs are decided by
    the record monitor and by the lock-step (which compares the full data log after every event). *)
From Coq Require Import ZArith List Bool Lia Sorting.Permutation Sorting.Sorted.
From RecordUpdate Require Import RecordUpdate.
From SimVerif Require Import Model.Base Model.Env Model.FamEnv Model.RM Model.Maint Model.FloorTypes Model.Floor Model.FamFloor.
From SimVerif Require Import Proofs.RMInv Proofs.EnvInv Proofs.EnvPause Proofs.FloorSteps Proofs.FloorInv Proofs.FloorSys Proofs.FloorProc Proofs.FloorFlow Proofs.FloorRes Proofs.FloorLink Proofs.FloorIdle Proofs.FloorLog Proofs.FloorLogInv Proofs.EnvTrace.
Import ListNotations.
Open Scope Z_scope.

Theorem C15_records_only_appended : forall nw fuel uops a w, exists l, f_out (exec_fact fuel uops a w nw) = l ++ f_out w.
Proof. intros. apply (R_out_ext MFull nw), R_exec_fact. reflexivity. Qed.

Theorem C15_receive_record_payload : forall w l d nw it,
  f_out (rec_part w l d nw it) = FData l d [nw; item_id it; item_quality it; item_value it] :: f_out w.
Proof. exact rec_part_payload. Qed.

Theorem C15_level_record_is_level : forall nw w d it1,
  let w' := updd w d (t_accept_buffer nw it1) in
  f_out (data w' L_LEVEL d [nw; d_level (getd w' d)]) = FData L_LEVEL d [nw; d_level (getd w' d)] :: f_out w.
Proof. exact buffer_accept_level_record. Qed.

Theorem C15_failure_record : forall nw w d,
  d_kind (getd w d) = KProcessor ->
  exists l, f_out (fail nw w d) =
            l ++ FData L_FAILURE d [nw; match d_part (getd w d) with Some it => item_id it | None => -1 end]
              :: f_out (release_reserved nw (updd w d (t_fail_clear nw)) d).
Proof. exact fail_record. Qed.

(** the resource record written after a pool changed carries the pool's usage and capacity of that moment *)
Theorem C15_resource_record : forall nw n s,
  r_out (record nw n s) = RData L_RESOURCE_UPDATE n [nw; usage (r_pools s) n; capacity (r_pools s) n] :: r_out s.
Proof. reflexivity. Qed.

(** buffer level = number of parts stored (C05), so the level record counts stored parts *)
Theorem C15_level_counts_parts : forall nw fuel uops a w, DevInv BufInv w -> DevInv BufInv (exec_fact fuel uops a w nw).
Proof. intros. apply exec_DevInv; [apply stable_BufInv|assumption]. Qed.

Print Assumptions C15_records_only_appended.
Print Assumptions C15_receive_record_payload.
Print Assumptions C15_level_record_is_level.
Print Assumptions C15_failure_record.
Print Assumptions C15_resource_record.
Print Assumptions C15_level_counts_parts.

Example C15_nonvacuous :
  f_out (rec_part (mkFw [] [] init_rs [] 0 [] [] 0) L_RECEIVED 3 40 (ISingle (mkPart 9 16 8 [] []))) = [FData L_RECEIVED 3 [40; 9; 8; 16]].
Proof. reflexivity. Qed.

(** * the event trace of the model (the dispatch log): every step adds exactly the event it executes, at the front; no environment
    call touches it; a run only ever extends it.  (The trace=True machinery of the implementation — _event_trace and the exported
    file — is outside the model; the monitor compares it with the events taken off the queue.) *)
Theorem C15_trace_step : forall (A W : Type) ws (exec : A -> W -> Z -> W * list (cmd A)) wfail w (en : env A) e q r,
  queue en = e :: q -> step ws exec wfail (w, en) = Some r -> dispatched (snd (res_val r)) = e :: dispatched en.
Proof. exact step_dispatch_log. Qed.
Theorem C15_trace_calls : forall (A : Type) ws cs (en : env A), dispatched (res_val (apply_cmds ws en cs)) = dispatched en.
Proof. intros A ws. exact (apply_cmds_dispatched A ws). Qed.
Theorem C15_trace_run : forall (A W : Type) ws (exec : A -> W -> Z -> W * list (cmd A)) wfail fuel s r,
  loop ws exec wfail fuel s = Some r -> exists l, dispatched (snd (res_val r)) = l ++ dispatched (snd s).
Proof. exact loop_dispatch_log. Qed.
Print Assumptions C15_trace_step.
Print Assumptions C15_trace_calls.
Print Assumptions C15_trace_run.

(** * the devices and the data log agree, in every state reached without an exception (also inside a run) *)
Theorem C15_supplied_counter_is_record_count : forall sc s d,
  f_out (fq_world sc) = [] -> reach_in sc s ->
  d_produced (getd (fst s) d) = d_produced (getd (fq_world sc) d) + cntrec L_SUPPLIED d (datalog (snd s)).
Proof. exact supplied_counter_is_record_count. Qed.

Theorem C15_last_level_record_is_level : forall sc s d,
  f_out (fq_world sc) = [] -> reach_in sc s ->
  match lastrec L_LEVEL d (datalog (snd s)) with
  | Some p => exists t, p = [t; d_level (getd (fst s) d)]
  | None => d_level (getd (fst s) d) = d_level (getd (fq_world sc) d)
  end.
Proof. exact last_level_record_is_level. Qed.

Theorem C15_sink_value_is_sum_of_records : forall sc s d,
  f_out (fq_world sc) = [] -> reach_in sc s -> d_kind (getd (fst s) d) = KSink ->
  d_value_received (getd (fst s) d) = d_value_received (getd (fq_world sc) d) + sumrec L_RECEIVED d (datalog (snd s)).
Proof. exact sink_value_is_sum_of_records. Qed.

(** [d_accepts] is a ghost counter of the model: it moves exactly when a device takes an item in (Model/Floor.v, [t_accept]) *)
Theorem C15_one_received_record_per_acceptance : forall sc s d,
  f_out (fq_world sc) = [] -> reach_in sc s -> amem d (f_devs (fst s)) = true ->
  d_accepts (getd (fst s) d) = d_accepts (getd (fq_world sc) d) + cntrec L_RECEIVED d (datalog (snd s)).
Proof. exact accepts_is_received_record_count. Qed.
Theorem C15_accept_counter_def : forall nw it x, d_accepts (t_accept nw it x) = 1 + d_accepts x.
Proof. intros nw it x. unfold t_accept, dev_set_wait. destruct (d_wait_since _); reflexivity. Qed.

(** the premise holds for every scenario the decoder builds *)
Theorem C15_decoded_scenarios_start_clean : forall l, f_out (fq_world (decode_fl_scn l)) = [].
Proof. exact decoded_no_pending_output. Qed.

(** the records of the resource manager and the maintainers never carry the supplied / level labels *)
Theorem C15_manager_labels : forall nw r s, rlab s -> rlab (fst (reserve nw r s)).
Proof. exact rlab_reserve. Qed.

Print Assumptions C15_supplied_counter_is_record_count.
Print Assumptions C15_last_level_record_is_level.
Print Assumptions C15_sink_value_is_sum_of_records.
Print Assumptions C15_one_received_record_per_acceptance.
Print Assumptions C15_decoded_scenarios_start_clean.
Print Assumptions C15_manager_labels.

(** Non-vacuity: source (cycle 8) -> buffer (capacity 4) -> processor (cycle 24) -> sink; after 13 executed events the source
    has supplied 4 parts (4 records) and the buffer holds 2, its last level record (written at time 32) says 2. *)
Definition c15_world : fw :=
  mkFw [(1, (blank_dev KSource) <| d_down := [2] |> <| d_cycle := 8 |>);
        (2, (blank_dev KBuffer) <| d_up := [1] |> <| d_down := [3] |> <| d_capacity := Some 4 |>);
        (3, (blank_dev KProcessor) <| d_up := [2] |> <| d_down := [4] |> <| d_cycle := 24 |>);
        (4, (blank_dev KSink) <| d_up := [3] |>)] [] init_rs [] 10 [] [] 0.
Definition c15_sc : fl_scn := mkFlScn 1 1 c15_world [] [].
Definition c15_s0 := fst (do_fxop c15_sc (c15_world, init_env) FXInit).
Example C15_log_nonvacuous :
  f_out (fq_world c15_sc) = [] /\ reach_in c15_sc (fx_steps c15_sc 13 c15_s0) /\
  d_produced (getd (fst (fx_steps c15_sc 13 c15_s0)) 1) = 4 /\ cntrec L_SUPPLIED 1 (datalog (snd (fx_steps c15_sc 13 c15_s0))) = 4 /\
  d_level (getd (fst (fx_steps c15_sc 13 c15_s0)) 2) = 2 /\ lastrec L_LEVEL 2 (datalog (snd (fx_steps c15_sc 13 c15_s0))) = Some [32; 2].
Proof.
  assert (R0 : reach_ok c15_sc c15_s0).
  { apply ro_init; [vm_compute; reflexivity|]. unfold c15_s0. vm_compute. reflexivity. }
  split; [reflexivity|]. split; [apply reach_ok_in, fx_steps_reach; [exact R0|vm_compute; reflexivity]|].
  repeat split; vm_compute; reflexivity.
Qed.

(** the same line with parts worth 5: after 40 executed events the sink has received value and its records add up to it *)
Definition c15v_world : fw :=
  mkFw [(1, (blank_dev KSource) <| d_down := [2] |> <| d_cycle := 8 |> <| d_gen_value := 5 |>);
        (2, (blank_dev KBuffer) <| d_up := [1] |> <| d_down := [3] |> <| d_capacity := Some 4 |>);
        (3, (blank_dev KProcessor) <| d_up := [2] |> <| d_down := [4] |> <| d_cycle := 24 |>);
        (4, (blank_dev KSink) <| d_up := [3] |>)] [] init_rs [] 10 [] [] 0.
Definition c15v_sc : fl_scn := mkFlScn 1 1 c15v_world [] [].
Definition c15v_s0 := fst (do_fxop c15v_sc (c15v_world, init_env) FXInit).
Example C15_sink_value_nonvacuous :
  f_out (fq_world c15v_sc) = [] /\ reach_in c15v_sc (fx_steps c15v_sc 40 c15v_s0) /\
  d_kind (getd (fst (fx_steps c15v_sc 40 c15v_s0)) 4) = KSink /\
  d_value_received (getd (fst (fx_steps c15v_sc 40 c15v_s0)) 4) = 25 /\ sumrec L_RECEIVED 4 (datalog (snd (fx_steps c15v_sc 40 c15v_s0))) = 25.
Proof.
  assert (R0 : reach_ok c15v_sc c15v_s0).
  { apply ro_init; [vm_compute; reflexivity|]. unfold c15v_s0. vm_compute. reflexivity. }
  split; [reflexivity|]. split; [apply reach_ok_in, fx_steps_reach; [exact R0|vm_compute; reflexivity]|].
  repeat split; vm_compute; reflexivity.
Qed.

Example C15_accepts_nonvacuous :
  map (fun d => (d_accepts (getd (fst (fx_steps c15v_sc 40 c15v_s0)) d), cntrec L_RECEIVED d (datalog (snd (fx_steps c15v_sc 40 c15v_s0))))) [2; 3; 4]
  = [(9, 9); (6, 6); (5, 5)].
Proof. vm_compute. reflexivity. Qed.
