"""Family F_maint: the real Maintainer inside the real Environment, with scripted Maintainable targets.

Scenario = dict(seed, mod, capacity (ticks or None=inf), value, table=[entry...], ext=[op...])
  entry = dict(t, g, cap, dur, cost, start=[[t,g]...], end=[[t,g]...])      (g = -1 means tag None)
  op = ('create', t, g, info) | ('defer', time, t, g, info) | ('step',) | ('run', d)
"""
import contextlib
import io
import re
from collections import Counter
from . import common
from .common import PRIO
from .common import TICK as _TICK8, to_ticks as _to_ticks

CUR = [_TICK8]          # ticks per time unit of the scenario being run (sc['tick'], default 8; see fam_floor.py)


def to_ticks(x, unit=None):
    return _to_ticks(x, CUR[0] if unit is None else unit)


FAMILY = 3
NAME = 'maint'
STEP_LIMIT = 2500
LABELS = {'enter_queue': 2, 'start_work_order': 3, 'finish_work_order': 4}


class Discard(Exception):
    pass


class TooLong(Discard):
    pass


def encode(sc):
    out = [0, sc['seed'], sc['mod'], 0, 0, 0, 0, 0]
    out += [40, -1 if sc['capacity'] is None else sc['capacity'], sc['value'], 0, 0, 0, 0, 0]
    for e in sc['table']:
        out += [41, e['t'], e['g'], e['cap'], e['dur'], e['cost'], 0, 0]
        for t2, g2 in e['start']:
            out += [42, e['t'], e['g'], t2, g2, 0, 0, 0]
        for t2, g2 in e['end']:
            out += [43, e['t'], e['g'], t2, g2, 0, 0, 0]
    for x in sc['ext']:
        if x[0] == 'create':
            out += [44, x[1], x[2], x[3], 0, 0, 0, 0]
        elif x[0] == 'defer':
            out += [45, x[1], x[2], x[3], x[4], 0, 0, 0]
        elif x[0] == 'step':
            out += [14, 0, 0, 0, 0, 0, 0, 0]
        elif x[0] == 'run':
            out += [15, x[1], 0, 0, 0, 0, 0, 0]
    return out


def gen(rng, size='small'):
    ntargets = rng.choice([1, 2, 2, 3, 4])
    tags = [-1, 0, 1][:rng.choice([1, 2, 3])]
    unit = rng.choice([8, 8, 4])
    capacity = rng.choice([None, 0, unit, 2 * unit, 2 * unit, 3 * unit, 5 * unit])
    table = []
    for t in range(ntargets):
        for g in tags:
            if rng.random() < 0.8:
                e = dict(t=t, g=g, cap=unit * rng.choice([0, 1, 1, 1, 2, 2, 3, 6]), dur=rng.choice([0, 0, 4, 8, 8, 16, 24]),
                         cost=8 * rng.choice([0, 0, 1, 5, 10, -2]), start=[], end=[])
                if rng.random() < 0.15:
                    e['start'].append([rng.randrange(ntargets), rng.choice(tags)])
                if rng.random() < 0.2:
                    e['end'].append([rng.randrange(ntargets), rng.choice(tags)])
                table.append(e)
    n_ops = rng.randint(4, 14) if size == 'small' else rng.randint(12, 50)
    ext, est = [], 0
    for _ in range(n_ops):
        r = rng.random()
        if r < 0.45:
            ext.append(('create', rng.randrange(ntargets), rng.choice(tags), rng.randint(0, 5)))
        elif r < 0.65:
            ext.append(('defer', est + rng.choice([0, 0, 4, 8, 8, 16]), rng.randrange(ntargets), rng.choice(tags), rng.randint(0, 5)))
        elif r < 0.85:
            ext.append(('step',))
        else:
            d = rng.choice([0, 4, 8, 16, 32])
            ext.append(('run', d))
            est += d
    sc = dict(seed=rng.randint(0, 1000), mod=rng.choice([1, 3, 1 << 20]), capacity=capacity,
              value=8 * rng.choice([0, 0, 100, -50]), table=table, ext=ext)
    if rng.random() < 0.15:
        sc['tick'] = 1 << 20       # the same scenario on a grid of 2**-20: durations that need twenty decimal digits
    return sc


def run_impl(sc):
    CUR[0] = sc.get('tick', _TICK8)
    from simprocesd.model import System, EventType
    from simprocesd.model.factory_floor import Maintainer, Maintainable
    from simprocesd.model.factory_floor import maintainer as mmod
    flat, obs = [], []
    table = {(e['t'], e['g']): e for e in sc['table']}
    with common.WeightPatch(sc['seed'], sc['mod']):
        system = System()
        env = system.env
        cap = float('inf') if sc['capacity'] is None else sc['capacity'] / CUR[0]
        m = Maintainer(name='maintainer', capacity=cap, value=sc['value'] / CUR[0])
        m.initialize(env)
        hooks, results, datalog = [], [], []
        wo_ids = {}
        orig_wo_init = mmod._WorkOrder.__init__

        def wo_init(self, *a, **kw):
            orig_wo_init(self, *a, **kw)
            self._verif_id = len(wo_ids)
            wo_ids[id(self)] = self
        mmod._WorkOrder.__init__ = wo_init
        try:
            steps = [0]
            orig_step = env.step

            def counted_step():
                steps[0] += 1
                if steps[0] > STEP_LIMIT:
                    raise TooLong()
                orig_step()
            env.step = counted_step
            orig_add = env.add_datapoint

            tap = common.DataTap()

            def add_datapoint(label, sub, dp):
                datalog.append((label, sub, dp))
                orig_add(label, sub, dp)
                tap.add(label, sub, dp)
            env.add_datapoint = add_datapoint

            def tagv(g):
                return None if g == -1 else g

            def tagz(tag):
                return -1 if tag is None else tag

            class T(Maintainable):
                def __init__(self, idx):
                    self.idx = idx
                    self.name = 't%d' % idx

                def entry(self, tag):
                    return table.get((self.idx, tagz(tag)))

                def get_work_order_duration(self, tag):
                    e = self.entry(tag)
                    return e['dur'] / CUR[0] if e else super().get_work_order_duration(tag)

                def get_work_order_capacity(self, tag):
                    e = self.entry(tag)
                    return e['cap'] / CUR[0] if e else super().get_work_order_capacity(tag)

                def get_work_order_cost(self, tag):
                    e = self.entry(tag)
                    return e['cost'] / CUR[0] if e else super().get_work_order_cost(tag)

                def start_work(self, tag):
                    hooks.append((0, self.idx, tagz(tag), to_ticks(env.now)))
                    e = self.entry(tag)
                    for t2, g2 in (e['start'] if e else []):
                        create(t2, g2, 0)

                def end_work(self, tag):
                    hooks.append((1, self.idx, tagz(tag), to_ticks(env.now)))
                    e = self.entry(tag)
                    for t2, g2 in (e['end'] if e else []):
                        create(t2, g2, 0)

            ntargets = 1 + max([e['t'] for e in sc['table']] + [x[1] for x in sc['ext'] if x[0] == 'create']
                               + [x[2] for x in sc['ext'] if x[0] == 'defer']
                               + [r[0] for e in sc['table'] for r in e['start'] + e['end']] + [0])
            targets = [T(i) for i in range(ntargets)]

            def create(t, g, info):
                ok = m.create_work_order(targets[t], tagv(g), info)
                results.append((t, g, 1 if ok else 0))

            def make_defer(t, g, info):
                def action():
                    create(t, g, info)
                action._verif_act = (3, t * 100 + g)
                return action

            def act_code(ev):
                a = ev.action
                if hasattr(a, '_verif_act'):
                    return list(a._verif_act)
                f = getattr(a, 'func', None)
                if f is not None and f.__name__ == '_start_work_order':
                    return [1, a.keywords['request']._verif_id]
                if f is not None and f.__name__ == '_finish_work_order':
                    return [2, a.keywords['request']._verif_id]
                if getattr(a, '__name__', '') == '_terminate':
                    return [-1, 0]
                return [-99, 0]

            def enc_wo(w):
                return [w._verif_id, w.target.idx, tagz(w.tag), to_ticks(w.needed_capacity), w.info]

            label_re = re.compile(r'work order - tag:(.*) target:t(\d+)$')
            ndata = 0
            for x in sc['ext']:
                st = 0
                sink = io.StringIO()
                try:
                    with contextlib.redirect_stdout(sink):
                        k = x[0]
                        if k == 'create':
                            create(x[1], x[2], x[3])
                        elif k == 'defer':
                            env.schedule_event(x[1] / CUR[0], -5, make_defer(x[2], x[3], x[4]), EventType.OTHER_LOW_PRIORITY)
                        elif k == 'step':
                            env.step()
                        elif k == 'run':
                            env.run(x[1] / CUR[0])
                except ValueError:
                    st = 1
                except IndexError:
                    st = 2
                out = [-777, st, to_ticks(m._utilization), -1 if sc['capacity'] is None else to_ticks(m._capacity), to_ticks(m.value)]
                out.append(len(m._request_queue))
                for w in m._request_queue:
                    out += enc_wo(w)
                out.append(len(m._active_requests))
                for w in m._active_requests:
                    out += enc_wo(w)
                out.append(len(m.value_history))
                vh = []
                for label, tm, delta, total in m.value_history:
                    mo = label_re.match(label)
                    g = -1 if mo.group(1) == 'None' else int(mo.group(1))
                    vh.append([g, int(mo.group(2)), to_ticks(tm), to_ticks(delta), to_ticks(total)])
                    out += vh[-1]
                out.append(len(hooks))
                for h in hooks:
                    out += list(h)
                out.append(len(results))
                for r in results:
                    out += list(r)
                q = []
                for ev in env._events:
                    aid = 1 if ev.asset_id == m.id else ev.asset_id
                    q.append([ev._verif_eid, to_ticks(ev.time), to_ticks(ev.event_type, PRIO),
                              int(round(ev.random_weight * common.WDEN)), aid] + act_code(ev))
                out += [to_ticks(env.now), 1 if env._terminated else 0, len(q)]
                for e in q:
                    out += e
                new = datalog[ndata:]
                ndata = len(datalog)
                out.append(len(new))
                drecs = []
                for label, sub, dp in new:
                    tm, tname, tag, info = dp
                    rec = [LABELS[label], 4, to_ticks(tm), int(tname[1:]), tagz(tag), info]
                    drecs.append(rec)
                    out += rec
                flat += out
                obs.append(dict(op=x, st=st, now=to_ticks(env.now), util=to_ticks(m._utilization),
                                queue=[enc_wo(w) for w in m._request_queue], active=[enc_wo(w) for w in m._active_requests],
                                value=to_ticks(m.value), vhist=vh, hooks=list(hooks), results=list(results), events=q, data=drecs, stored=tap.diff(env)))
        finally:
            mmod._WorkOrder.__init__ = orig_wo_init
    return flat, obs


# ------------------------------------------------------------------ monitor (from the property text)
def monitor_c12(sc, obs):
    v = []

    def bad(sig, what):
        v.append(dict(sig=sig, what=what))
    table = {(e['t'], e['g']): e for e in sc['table']}
    cap = sc['capacity']
    started = {}      # wo id -> start time
    all_data = []
    prev = dict(queue=[], active=[], results=[], now=0, hooks=[], value=sc['value'])
    for i, o in enumerate(obs):
        all_data += o['data']
        act = o['active']
        if o['util'] != sum(w[3] for w in act):
            bad('C12/utilization', 'op %d: capacity in use %d/8 differs from the sum over orders in progress %d/8' % (i, o['util'], sum(w[3] for w in act)))
        if cap is not None and all(w[3] >= 0 for w in act + o['queue']) and o['util'] > cap:
            bad('C12/over-capacity', 'op %d: capacity in use %d/8 exceeds the maintainer capacity %d/8' % (i, o['util'], cap))
        tg = [w[1] for w in act]
        if len(tg) != len(set(tg)):
            bad('C12/two-orders-one-target', 'op %d: two orders in progress on the same target: %s' % (i, act))
        # create_work_order returns exactly "not a duplicate"
        if o['op'][0] == 'create' and o['st'] == 0 and len(o['results']) == len(prev['results']) + 1:
            t, g = o['op'][1], o['op'][2]
            dup = any(w[1] == t and w[2] == g for w in prev['queue'] + prev['active'])
            if o['results'][-1][2] != (0 if dup else 1):
                bad('C12/create-result', 'op %d: create_work_order(t%d, %d) returned %s although %s' % (
                    i, t, g, bool(o['results'][-1][2]), 'an identical order exists' if dup else 'no identical order exists'))
        # nothing startable is left waiting when time may advance: no START event pending now means the scan has settled
        busy = set(tg)
        util = o['util']
        for w in o['queue']:
            fits = cap is None or util <= cap - w[3]
            if fits and w[1] not in busy:
                bad('C12/startable-left-waiting', 'op %d %s (t=%d): queued order %s fits (in use %d/8 of %s) and its target is free' % (
                    i, o['op'], o['now'], w, util, cap))
                break
        prev = o
    # life cycle from the recorded data: each order: one enter, at most one start, finish exactly duration after start
    hooks = obs[-1]['hooks'] if obs else []
    starts = [d for d in all_data if d[0] == 3]
    finishes = [d for d in all_data if d[0] == 4]
    hs = [h for h in hooks if h[0] == 0]
    he = [h for h in hooks if h[0] == 1]
    if [(d[3], d[4], d[2]) for d in starts] != [(h[1], h[2], h[3]) for h in hs]:
        bad('C12/start-hook', 'start hooks %s do not match start records %s one to one' % (hs[:5], starts[:5]))
    if [(d[3], d[4], d[2]) for d in finishes] != [(h[1], h[2], h[3]) for h in he]:
        bad('C12/end-hook', 'end hooks %s do not match finish records %s one to one' % (he[:5], finishes[:5]))
    open_ = {}
    for d in sorted(starts + finishes, key=lambda d: (d[2], d[0] == 3)):
        pass
    # exact durations: per (target, tag) orders are sequential, so pair starts and finishes in order
    per = {}
    for d in all_data:
        if d[0] in (3, 4):
            per.setdefault((d[3], d[4]), []).append(d)
    for (t, g), lst in per.items():
        dur = table.get((t, g), dict(dur=0))['dur']
        s = [d for d in lst if d[0] == 3]
        f = [d for d in lst if d[0] == 4]
        for a, b in zip(s, f):
            if b[2] - a[2] != dur:
                bad('C12/duration', 'order (t%d, %d) started at %d finished at %d, reported duration %d' % (t, g, a[2], b[2], dur))
        if len(f) > len(s):
            bad('C12/finish-without-start', 'order (t%d, %d) finished more often than it started' % (t, g))
    # cost charged once per started order
    if obs:
        want = sc['value'] - sum(table.get((d[3], d[4]), dict(cost=0))['cost'] for d in starts)
        if obs[-1]['value'] != want:
            bad('C12/cost', 'maintainer value %d/8, expected %d/8 (initial minus the cost of each started order)' % (obs[-1]['value'], want))
    return v


def monitor_c15(sc, obs):
    """the tables the library keeps hold exactly the datapoints that were reported, one per occurrence, in order"""
    v = []
    for i, o in enumerate(obs):
        if o.get('stored'):
            v.append(dict(sig='C15/stored-data', what='op %d %s: %s' % (i, o['op'], o['stored'])))
            break
    return v


MONITORS = {'C12': monitor_c12, 'C15': monitor_c15}


def stats(sc, obs):
    c = Counter()
    for o in obs:
        c['op:' + o['op'][0]] += 1
        c['status:%d' % o['st']] += 1
    c['scenarios'] += 1
    if obs:
        c['orders_started'] += len([h for h in obs[-1]['hooks'] if h[0] == 0])
        c['orders_rejected'] += len([r for r in obs[-1]['results'] if r[2] == 0])
    return c


def nontrivial(prop, sc, obs):
    if not obs:
        return False
    started = len([h for h in obs[-1]['hooks'] if h[0] == 0])
    waited = any(o['queue'] for o in obs)
    return started >= 2 and waited


def shrink_candidates(sc):
    ext = sc['ext']
    for i in range(len(ext) - 1, -1, -1):
        yield dict(sc, ext=ext[:i] + ext[i + 1:])
    for i in range(len(sc['table'])):
        yield dict(sc, table=sc['table'][:i] + sc['table'][i + 1:])


def locate(sc, flat, pos):
    n = flat[:pos + 1].count(-777) - 1
    return 'op #%d %s' % (n, sc['ext'][n] if 0 <= n < len(sc['ext']) else '?')
