"""Family F_sensor: real PeriodicSensor, OutputPartSensor and Cms in the real Environment.

Scenario = dict(seed, mod, interval, cap (None=inf), nprobes (1..3), pinterval, ocap, ext=[op...])
  op = ('set', i, v) | ('dset', t, i, v) | ('part', q, v) | ('cms', which) | ('addcb', which, k) | ('init',) | ('step',) | ('run', d)
  variable 2 is the length of a list attribute mutated in place (the "stores a copy" clause).
"""
import contextlib
import io
from collections import Counter
from . import common
from .common import TICK, PRIO, to_ticks

FAMILY = 5
NAME = 'sensor'
STEP_LIMIT = 3000


class Discard(Exception):
    pass


class TooLong(Discard):
    pass


def encode(sc):
    ci = lambda c: -1 if c is None else c
    out = [0, sc['seed'], sc['mod'], 0, 0, 0, 0, 0]
    out += [60, sc['interval'], ci(sc['cap']), sc['nprobes'], sc['pinterval'], ci(sc['ocap']), 0, 0]
    code = {'set': 61, 'dset': 62, 'part': 63, 'cms': 64, 'addcb': 65, 'init': 16, 'step': 14, 'run': 15}
    for x in sc['ext']:
        args = list(x[1:]) + [0] * 7
        out += [code[x[0]]] + args[:7]
    return out


def gen(rng, size='small'):
    interval = rng.choice([1, 2, 4, 8, 8, 12, 20])
    cap = rng.choice([None, 1, 2, 3, 3, 5])
    ocap = rng.choice([None, 1, 2, 4])
    nprobes = rng.choice([1, 2, 3])
    pinterval = rng.choice([0, 0, 1, 2, 3])
    ext = []
    if rng.random() < 0.5:
        ext.append(('cms', 0))
    if rng.random() < 0.3:
        ext.append(('addcb', rng.choice([0, 1]), rng.randint(0, 2)))
    ext.append(('init',))
    n_ops = rng.randint(4, 14) if size == 'small' else rng.randint(12, 50)
    est = 0
    for _ in range(n_ops):
        r = rng.random()
        if r < 0.15:
            ext.append(('set', rng.randint(0, 2), rng.randint(0, 6)))
        elif r < 0.3:
            ext.append(('dset', est + rng.choice([0, 2, 4, 8, 16, 24]), rng.randint(0, 2), rng.randint(0, 6)))
        elif r < 0.5:
            ext.append(('part', 8 * rng.randint(0, 4) // 4 * 4 // 4, 8 * rng.randint(0, 5)))
        elif r < 0.58:
            ext.append(('cms', rng.choice([0, 1])))
        elif r < 0.65:
            ext.append(('addcb', rng.choice([0, 1]), rng.randint(0, 2)))
        elif r < 0.8:
            ext.append(('step',))
        else:
            d = rng.choice([4, 8, 16, 32, 64])
            ext.append(('run', d))
            est += d
    return dict(seed=rng.randint(0, 1000), mod=rng.choice([1, 3, 1 << 20]), interval=interval, cap=cap, nprobes=nprobes,
                pinterval=pinterval, ocap=ocap, ext=ext)


def run_impl(sc):
    from simprocesd.model import System
    from simprocesd.model.factory_floor import PartProcessor, Part
    from simprocesd.model.sensors import PeriodicSensor, OutputPartSensor, AttributeProbe
    from simprocesd.model.cms import Cms
    flat, obs = [], []
    with common.WeightPatch(sc['seed'], sc['mod']):
        system = System()
        env = system.env
        calls = []

        class Vars:
            pass
        class Box:
            """a mutable record that is updated in place (not a list/dict/set): a copy must still be taken when it is measured"""
            def __init__(self):
                self.n = 0

            def __len__(self):
                return self.n

            def append(self, _):
                self.n += 1

            def pop(self):
                self.n -= 1
        import collections
        vs = Vars()
        # variable 2 is mutated in place; which kind of mutable value it is does not matter to the property (chosen from the seed)
        vs.v0, vs.v1, vs.lst = 0, 0, [list, collections.deque, bytearray, Box][sc['seed'] % 4]()
        probes = [AttributeProbe('v0', vs), AttributeProbe('v1', vs), AttributeProbe('lst', vs)][:sc['nprobes']]
        inf = float('inf')
        P = PeriodicSensor(sc['interval'] / TICK, probes, 'periodic', inf if sc['cap'] is None else sc['cap'])
        pp = PartProcessor('pp')
        oprobes = [AttributeProbe('quality', None), AttributeProbe('value', None)]
        O = OutputPartSensor(pp, oprobes, sc['pinterval'], 'output', inf if sc['ocap'] is None else sc['ocap'])

        # a processing step registered after the sensor was constructed but before the run: the sensor (which hooks in when it is
        # initialised) measures the part as that step leaves it
        def final_touch(dev, part):
            part.quality += 1 / TICK
        pp.add_finish_processing_callback(final_touch)
        sensors = [P, O]

        def val(x):
            if isinstance(x, (list, collections.deque, bytearray, Box)):
                return len(x)
            return to_ticks(x) if isinstance(x, float) else int(x)

        def seen_times(sensor):
            # the model reports, after the values handed to a callback of the periodic sensor, how long the time series is at that moment
            return [len(sensor.data['time'])] if 'time' in sensor.data else []

        def misaligned(sensor, time):
            # what a callback sees when it is notified: every series of the sensor, the time series included, already holds this
            # measurement (they 'stay aligned with each other', C19)
            d = sensor.data
            lens = sorted({len(v) for v in d.values()})
            if len(lens) > 1:
                return 'the series of the sensor have lengths %s' % lens
            if 'time' in d and (not d['time'] or d['time'][-1] != time):
                return 'the time series ends with %s' % (d['time'][-1] if d['time'] else 'nothing')
            return None

        class MyCms(Cms):
            def on_sense(self, sensor, time, data):
                calls.append([sensors.index(sensor), 100, to_ticks(time), [val(d) for d in data] + seen_times(sensor), misaligned(sensor, time)])
        cms = MyCms(None, 'cms')

        cb_cache = {}

        def make_cb(k):
            # the same callback object whenever its number repeats: a callback registered twice is called twice per measurement
            if k in cb_cache:
                return cb_cache[k]

            def cb(sensor, time, data):
                calls.append([sensors.index(sensor), k, to_ticks(time), [val(d) for d in data] + seen_times(sensor), misaligned(sensor, time)])
            cb._verif_cb = k
            cb_cache[k] = cb
            return cb
        steps = [0]
        orig_step = env.step

        def counted_step():
            steps[0] += 1
            if steps[0] > STEP_LIMIT:
                raise TooLong()
            orig_step()
        env.step = counted_step

        def setvar(i, v):
            if i == 0:
                vs.v0 = v
            elif i == 1:
                vs.v1 = v
            else:
                while len(vs.lst) < v:
                    vs.lst.append(0)
                while len(vs.lst) > v:
                    vs.lst.pop()

        def mk_dset(i, v):
            def action():
                setvar(i, v)
            action._verif_act = [2, i * 1000 + v]
            return action

        def act_code(ev):
            a = ev.action
            if hasattr(a, '_verif_act'):
                return a._verif_act
            nm = getattr(a, '__name__', '')
            if nm == '_periodic_sense':
                return [1, 0]
            if nm == '_terminate':
                return [-1, 0]
            return [-99, 0]

        def cb_ids(s):
            out = []
            for c in s._on_sense:
                if hasattr(c, '_verif_cb'):
                    out.append(c._verif_cb)
                elif getattr(c, '__self__', None) is cms:
                    out.append(100)
                else:
                    out.append(-99)
            return out

        def enc_sensor(s, plist, with_time):
            out = [len(plist)]
            series = []
            for p in plist:
                d = [val(x) for x in s.data.get(p, [])]
                series.append(d)
                out += [len(d)] + d
            t = [to_ticks(x) for x in s.data.get('time', [])] if with_time else []
            out += [len(t)] + t
            last = [val(x) for x in s.last_sense]
            out += [len(last)] + last
            cbs = cb_ids(s)
            out += [len(cbs)] + cbs
            out.append(getattr(s, '_counter', 0))
            return out, series, t

        for x in sc['ext']:
            st = 0
            try:
                with contextlib.redirect_stdout(io.StringIO()):
                    k = x[0]
                    if k == 'set':
                        setvar(x[1], x[2])
                    elif k == 'dset':
                        from simprocesd.model import EventType
                        env.schedule_event(x[1] / TICK, -5, mk_dset(x[2], x[3]), EventType.OTHER_LOW_PRIORITY)
                    elif k == 'part':
                        part = Part(quality=(x[1] - 1) / TICK, value=x[2] / TICK)       # (final_touch adds the missing tick)
                        for c in list(pp._finish_processing_callbacks):
                            c(pp, part)
                    elif k == 'cms':
                        cms.add_sensor(sensors[x[1]])
                    elif k == 'addcb':
                        sensors[x[1]].add_on_sense_callback(make_cb(x[2]))
                    elif k == 'init':
                        P.initialize(env)
                        O.initialize(env)
                    elif k == 'step':
                        env.step()
                    elif k == 'run':
                        env.run(x[1] / TICK)
            except ValueError:
                st = 1
            except IndexError:
                st = 2
            out = [-777, st, 3, vs.v0, vs.v1, len(vs.lst)]
            ep, pser, ptime = enc_sensor(P, probes, True)
            eo, oser, _ = enc_sensor(O, oprobes, False)
            out += ep + eo
            cs = [sensors.index(s) for s in cms._sensors]
            out += [len(cs)] + cs
            out.append(len(calls))
            for c in calls:
                out += c[:3] + [len(c[3])] + c[3]
            q = []
            for ev in env._events:
                aid = 1 if ev.asset_id == P.id else ev.asset_id
                q.append([ev._verif_eid, to_ticks(ev.time), to_ticks(ev.event_type, PRIO), int(round(ev.random_weight * common.WDEN)), aid] + act_code(ev))
            out += [to_ticks(env.now), 1 if env._terminated else 0, len(q)]
            for e in q:
                out += e
            flat += out
            obs.append(dict(op=x, st=st, now=to_ticks(env.now), pser=pser, ptime=ptime, oser=oser, calls=[list(c) for c in calls],
                            pcbs=cb_ids(P), ocbs=cb_ids(O), cms=cs, vars=[vs.v0, vs.v1, len(vs.lst)], counter=O._counter))
    return flat, obs


def monitor_c19(sc, obs):
    v = []

    def bad(sig, what):
        v.append(dict(sig=sig, what=what))
    if not obs:
        return v
    t0 = None
    parts = 0
    init_seen = False
    expect_measured = []
    for i, o in enumerate(obs):
        if o['op'][0] == 'init' and not init_seen:
            init_seen = True
            t0 = o['now']
        # alignment and capacity
        lens = {len(s) for s in o['pser']} | {len(o['ptime'])}
        if len(lens) > 1:
            bad('C19/misaligned', 'op %d: periodic sensor series lengths %s, time series length %d' % (i, [len(s) for s in o['pser']], len(o['ptime'])))
        if sc['cap'] is not None and any(len(s) > sc['cap'] for s in o['pser'] + [o['ptime']]):
            bad('C19/over-capacity', 'op %d: a series holds more than data_capacity=%d entries (probe series %s, time %d)' % (
                i, sc['cap'], [len(s) for s in o['pser']], len(o['ptime'])))
        if sc['ocap'] is not None and any(len(s) > sc['ocap'] for s in o['oser']):
            bad('C19/over-capacity-output', 'op %d: output sensor series longer than data_capacity=%d' % (i, sc['ocap']))
        # a measurement stores a copy of the probed value at that moment: an entry that is still in a series keeps its value
        # (entries are identified by their time stamp; series and time series aligned)
        if i > 0 and len(lens) == 1:
            po = obs[i - 1]
            if len({len(s) for s in po['pser']} | {len(po['ptime'])}) == 1:
                for j, (olds, news) in enumerate(zip(po['pser'], o['pser'])):
                    was = dict(zip(po['ptime'], olds))
                    for t, x in zip(o['ptime'], news):
                        if t in was and was[t] != x and not v:
                            bad('C19/stored-value-changed', 'op %d %s: the measurement of probe %d taken at %d was %d and now reads %d' % (i, o['op'], j, t, was[t], x))
    for c in (obs[-1]['calls'] if obs else []):
        if len(c) > 4 and c[4]:
            bad('C19/aligned-at-notification', 'callback %d of sensor %d notified of the measurement at %d: %s' % (c[1], c[0], c[2], c[4]))
            break
    if t0 is None:
        return v
    last = obs[-1]
    # k-th periodic measurement exactly k intervals after the start; each callback once per measurement in registration order
    pcalls = [c for c in last['calls'] if c[0] == 0]
    times = []
    for c in pcalls:
        if not times or times[-1] != c[2]:
            times.append(c[2])
    horizon = last['now']
    init_i = next(i for i, x in enumerate(sc['ext']) if x[0] == 'init')
    cb_before_init = any(x[0] in ('cms', 'addcb') and x[1] == 0 for x in sc['ext'][:init_i])
    if cb_before_init:
        for k, t in enumerate(times):
            if t != t0 + (k + 1) * sc['interval']:
                bad('C19/sample-time', 'measurement #%d taken at %d, expected %d' % (k + 1, t, t0 + (k + 1) * sc['interval']))
                break
    # time series = the last min(count, cap) sampling instants
    if last['ptime']:
        for a, b in zip(last['ptime'], last['ptime'][1:]):
            if b - a != sc['interval']:
                bad('C19/time-series', 'time series %s is not spaced by the interval %d' % (last['ptime'][-6:], sc['interval']))
                break
    # output part sensor: first finished part, then every (n+1)-th
    n = sc['pinterval']
    seen_parts, measured = 0, 0
    started = False
    for i, o in enumerate(obs):
        if o['op'][0] == 'init':
            started = True
        if o['op'][0] == 'part' and started:
            seen_parts += 1
            should = (seen_parts - 1) % (n + 1) == 0
            before = len([c for c in obs[i - 1]['calls'] if c[0] == 1]) if i > 0 else 0
            after = len([c for c in o['calls'] if c[0] == 1])
            ncb = len(o['ocbs'])
            if (after - before) != (ncb if should else 0):
                bad('C19/part-interval', 'finished part #%d: %d callback invocations, expected %d (sensing interval %d, %d callbacks)' % (
                    seen_parts, after - before, ncb if should else 0, n, ncb))
                break
    # cms receives each measurement of a registered sensor exactly once
    for sidx, cbs in ((0, last['pcbs']), (1, last['ocbs'])):
        if cbs.count(100) > 1:
            bad('C19/cms-twice', 'the condition-monitoring system is registered %d times with sensor %d' % (cbs.count(100), sidx))
    return v


MONITORS = {'C19': monitor_c19}


def stats(sc, obs):
    c = Counter()
    for o in obs:
        c['op:' + o['op'][0]] += 1
    c['scenarios'] += 1
    c['cap:%s' % sc['cap']] += 1
    if obs:
        c['callback_calls'] += len(obs[-1]['calls'])
    return c


def nontrivial(prop, sc, obs):
    if not obs:
        return False
    return sc['cap'] is not None and any(len(o['ptime']) > sc['cap'] or (o['pser'] and len(o['pser'][0]) == sc['cap']) for o in obs) \
        and len(obs[-1]['calls']) >= 1


def shrink_candidates(sc):
    ext = sc['ext']
    for i in range(len(ext) - 1, -1, -1):
        if ext[i][0] != 'init':
            yield dict(sc, ext=ext[:i] + ext[i + 1:])


def locate(sc, flat, pos):
    n = flat[:pos + 1].count(-777) - 1
    return 'op #%d %s' % (n, sc['ext'][n] if 0 <= n < len(sc['ext']) else '?')
