"""Family F_floor: whole production lines on the real classes.

Scenario = dict(seed, mod, entities=[...creation order...], pools=[[n, a]...], uops=[[uop...]...], ext=[xop...], focus)
  entity kinds (ids are assigned in creation order starting at 1; groups take two ids, GroupInput then GroupOutput):
    dict(kind='pfc'|'gate'|'handler'|'processor'|'buffer'|'source'|'sink'|'batcher', up=[ids], ...params)
    dict(kind='group', gid, devices=[ids])        dict(kind='path', gid, up=[ids])       dict(kind='maint', capacity, value)
  uop = ['shutdown', d] | ['restore', d] | ['fail_at', d, t] | ['block', d, 0/1] | ['adjust', d, z] | ['offset', d, z] | ['rewire', d, u1, u2 (0 = none)] | ['add_res', n, a] | ['create_wo', m, t, g]
  xop = ['init'] | ['step'] | ['run', d] | ['at', t, k, prio] | ['now', uop]
All times/values in 1/8 units.
"""
import contextlib
import io
from collections import Counter
from . import common
from .common import PRIO
from .common import TICK as _TICK8, to_ticks as _to_ticks

# ticks per time unit of the scenario being run: 8 by default; a scenario may ask for a finer grid (sc['tick'], e.g. 1024: times that
# need more than nine decimal digits).  The model counts ticks and never sees the unit.
CUR = [_TICK8]


def to_ticks(x, unit=None):
    return _to_ticks(x, CUR[0] if unit is None else unit)


FAMILY = 6
NAME = 'floor'
STEP_LIMIT = 6000
KINDS = {'pfc': 0, 'gate': 1, 'handler': 2, 'processor': 3, 'buffer': 4, 'source': 5, 'sink': 6, 'batcher': 7,
         'path': 8, 'gin': 9, 'gout': 10}
CBOPS = {'set_cycle': 0, 'offset_next': 1, 'part_add_value': 2, 'part_set_quality': 3, 'create_wo': 4, 'create_wo_if_failure': 5, 'log': 6}
UOPS = {'shutdown': 0, 'restore': 1, 'fail_at': 2, 'block': 3, 'adjust': 4, 'add_res': 5, 'create_wo': 6, 'offset': 7, 'rewire': 8}
WHICH = {'receive': 0, 'finish': 1, 'shutdown': 2, 'restore': 3}
LABELS = {'resource_update': 1, 'enter_queue': 2, 'start_work_order': 3, 'finish_work_order': 4,
          'received_part': 6, 'produced_part': 7, 'device_failure': 8, 'level': 9, 'supplied_new_part': 10}


LATE_BASE = 1000      # model keys of devices constructed while the simulation is in progress (coq/Model/FamFloor.v, op 108)


class Discard(Exception):
    pass


class TooLong(Discard):
    pass


def inf_code(x):
    return -1 if x is None else x


def pad(l, n):
    return (list(l) + [0] * n)[:n]


def enc_req6(r):
    out = []
    for n, a in r[:3]:
        out += [n, a]
    while len(out) < 6:
        out += [-1, 0]
    return out


def encode(sc):
    out = [0, sc['seed'], sc['mod'], 0, 0, 0, 0, 0]
    nid = 0
    for e in sc['entities']:
        k = e['kind']
        if k in ('group',):
            out += [102, e['gid']] + pad(e['devices'], 6)
            nid += 2
            continue
        if k == 'path':
            out += [103, e['gid']] + pad(e['up'], 6)
            nid += 1
            continue
        if k == 'maint':
            out += [106, inf_code(e['capacity']), e['value'], 0, 0, 0, 0, 0]
            nid += 1
            continue
        late = e.get('late')
        if late:
            key = LATE_BASE + late
        else:
            nid += 1
            key = nid
        if k == 'handler':
            p = [e['cycle']]
        elif k == 'processor':
            p = [e['cycle'], e.get('wo_dur', 0), e.get('wo_cap', 0), e.get('wo_cost', 0)]
        elif k == 'buffer':
            p = [e['min_delay'], inf_code(e['capacity'])]
        elif k == 'source':
            p = [e['cycle'], inf_code(e['budget']), e['gen_value'], e['gen_quality'], e.get('gen_batch', 0)]
        elif k == 'sink':
            p = [e['cycle'], 1 if e.get('collect') else 0]
        elif k == 'batcher':
            p = [inf_code(e['batch_size'])]
        elif k == 'gate':
            p = [e['decider'][0], e['decider'][1]]
        else:
            p = []
        if late:
            # constructed later (ext op 'late'): declared under the reserved key, not connected, no id taken
            out += [108, late, KINDS[k]] + pad(p, 5)
        else:
            out += [100, KINDS[k]] + pad(p, 6)
            if e.get('up'):
                out += [101, key] + pad(e['up'], 6)
        if e.get('req'):
            out += [104, key] + enc_req6(e['req'])
        if e.get('gen_pattern'):
            out += [107, key] + pad([z + 2 for z in e['gen_pattern']], 6)      # sizes: -1 empty batch, 0 single part, n a batch of n
        for which in ('receive', 'finish', 'shutdown', 'restore'):
            for _ in range(2 if e.get('dup_' + which) else 1):     # registered twice: runs twice, in order
                for cb in e.get('on_' + which, []):
                    out += [105, key, WHICH[which], CBOPS[cb[0]]] + pad(cb[1:], 4)
    for n, a in sc['pools']:
        out += [20, n, a, 0, 0, 0, 0, 0]
    for k, ops in enumerate(sc['uops']):
        for o in ops:
            out += [110, k, UOPS[o[0]]] + pad(o[1:], 5)
    for x in sc['ext']:
        if x[0] == 'init':
            out += [112, 0, 0, 0, 0, 0, 0, 0]
        elif x[0] == 'step':
            out += [14, 0, 0, 0, 0, 0, 0, 0]
        elif x[0] == 'run':
            out += [15, x[1], 0, 0, 0, 0, 0, 0]
        elif x[0] == 'at':
            out += [111, x[1], x[2], x[3], 0, 0, 0, 0]
        elif x[0] == 'now':
            o = x[1]
            out += [113, UOPS[o[0]]] + pad(o[1:], 6)
        elif x[0] == 'late':
            out += [114, x[1]] + pad(x[2:], 6)
    return out


# ------------------------------------------------------------------ building the real objects
def decider_fn(code, arg):
    def val(p):
        return p.value

    def f(gate, part):
        if code == 0:
            return True
        if code == 1:
            return False
        if code == 2:
            return arg / CUR[0] <= part.quality
        if code == 3:
            return part.quality < arg / CUR[0]
        if code == 4:
            return arg / CUR[0] <= val(part)
        if code == 5:
            return val(part) < arg / CUR[0]
        if code == 6:
            return (part.id - f.base) % 2 == 0
        return (part.id - f.base) % 2 == 1
    return f


class World:
    pass


def build(sc):
    from simprocesd.model import System
    from simprocesd.model.factory_floor import (Asset, PartFlowController, DecisionGate, PartHandler, PartProcessor, Buffer,
                                                Source, Sink, PartBatcher, Group, Maintainer, Part, Batch, PartGenerator)
    W = World()
    W.system = System()
    W.env = W.system.env
    W.rm = W.system.resource_manager
    W.base = Asset._id_counter
    W.objs = {}
    W.groups = {}
    W.maints = {}
    W.cblog = []
    W.Batch = Batch
    W.Asset = Asset
    W.alias = {}          # relative Python id of a late-constructed device -> its model key
    W.key = lambda pid: W.alias.get(pid - W.base, pid - W.base)
    W.late = {}
    env = W.env

    class Proc(PartProcessor):
        def get_work_order_duration(self, tag):
            # state-dependent on purpose (Model/Floor.v wo_dur_now): longer when the machine is already shut down
            return self._v_dur + (0 if self.is_operational() else 8 / CUR[0])

        def get_work_order_capacity(self, tag):
            return self._v_cap

        def get_work_order_cost(self, tag):
            # state-dependent on purpose (Model/Floor.v wo_cost_now): a surcharge while the machine is shut down
            return self._v_cost + (0 if self.is_operational() else self._v_dur)

    class PatternGen(PartGenerator):
        """single parts, batches of varying sizes and empty batches, cyclically (Model/Floor.v gen_size)"""
        def __init__(self, prefix, value, quality, pattern):
            super().__init__(prefix, value, quality)
            self.pattern, self.k = list(pattern), 0

        def generate_part_helper(self, part_name, part_counter):
            n = self.pattern[self.k % len(self.pattern)]
            self.k += 1
            if n == 0:
                return Part(value=self.value, quality=self.quality)
            # a (user-defined kind of) batch built from a list that is filled afterwards: Batch.parts is that list
            parts = [Part(value=self.value, quality=self.quality) for _ in range(max(n, 0))]      # (ids: the parts first, then the batch)
            lst = []
            b = (Pallet if self.k % 2 else Batch)(parts=lst)
            lst.extend(parts)
            return b

    class Pallet(Batch):
        """a user-defined kind of batch"""

    class BatchGen(PartGenerator):
        def __init__(self, prefix, value, quality, n):
            super().__init__(prefix, value, quality)
            self.n = n

        def generate_part_helper(self, part_name, part_counter):
            parts = [Part(value=self.value, quality=self.quality) for _ in range(self.n)]
            lst = []
            b = (Pallet if part_counter % 2 else Batch)(parts=lst)
            lst.extend(parts)
            return b

    def nid(o):
        return W.key(o.id)

    def make_cb(dev_id, which, ops):
        def run(device, part, is_failure=False, lost=None):
            for cb in ops:
                k = cb[0]
                if k == 'set_cycle':
                    device.cycle_time = cb[1] / CUR[0]
                elif k == 'offset_next':
                    device.offset_next_cycle_time(cb[1] / CUR[0])
                elif k == 'part_add_value':
                    if part is not None:
                        part.add_value('x', cb[1] / CUR[0])
                elif k == 'part_set_quality':
                    if part is not None:
                        part.quality = cb[1] / CUR[0]
                elif k == 'create_wo':
                    W.maints[cb[1]].create_work_order(W.objs[cb[2]], None if cb[3] == -1 else cb[3])
                elif k == 'create_wo_if_failure':
                    if is_failure:
                        W.maints[cb[1]].create_work_order(device, None if cb[2] == -1 else cb[2])
                elif k == 'log':
                    W.cblog.append([cb[1], dev_id, to_ticks(env.now), -1 if part is None else nid(part),
                                    1 if is_failure else 0, -1 if lost is None else nid(lost)])
        if which in ('receive', 'finish'):
            return lambda device, part: run(device, part)
        if which == 'shutdown':
            return lambda device, is_failure, lost: run(device, device._part, is_failure, lost)
        return lambda device: run(device, device._part)

    def make(e, ups, key=None):
        k = e['kind']
        if k == 'pfc':
            o = PartFlowController(upstream=ups)
        elif k == 'gate':
            fn = decider_fn(e['decider'][0], e['decider'][1])
            fn.base = W.base
            o = DecisionGate(upstream=ups, decider_override=fn)
        elif k == 'handler':
            o = PartHandler(upstream=ups, cycle_time=e['cycle'] / CUR[0])
        elif k == 'processor':
            req = None
            if e.get('req'):
                req = {'r%d' % n: a / CUR[0] for n, a in e['req']}
            o = Proc(upstream=ups, cycle_time=e['cycle'] / CUR[0], resources_for_processing=req)
            o._v_dur, o._v_cap, o._v_cost = e.get('wo_dur', 0) / CUR[0], e.get('wo_cap', 0) / CUR[0], e.get('wo_cost', 0) / CUR[0]
        elif k == 'buffer':
            cap = e['capacity']
            if cap is not None and sc['seed'] % 3 == 0:
                cap = cap + 0.6          # a capacity with a fraction counts as its whole part
            o = Buffer(upstream=ups, minimum_delay=e['min_delay'] / CUR[0], capacity=cap)
        elif k == 'source':
            n = e.get('gen_batch', 0)
            if e.get('gen_pattern'):
                gen = PatternGen('p', e['gen_value'] / CUR[0], e['gen_quality'] / CUR[0], e['gen_pattern'])
            elif n > 0:
                gen = BatchGen('p', e['gen_value'] / CUR[0], e['gen_quality'] / CUR[0], n)
            else:
                gen = PartGenerator('p', e['gen_value'] / CUR[0], e['gen_quality'] / CUR[0])
            o = Source(part_generator=gen, cycle_time=e['cycle'] / CUR[0],
                       starting_parts=float('inf') if e['budget'] is None else e['budget'])
        elif k == 'sink':
            o = Sink(upstream=ups, cycle_time=e['cycle'] / CUR[0], collect_parts=bool(e.get('collect')))
        elif k == 'batcher':
            o = PartBatcher(upstream=ups, output_batch_size=e['batch_size'])
        else:
            raise ValueError(k)
        if key is not None:
            W.alias[o.id - W.base] = key
        del ups[:]      # the caller re-uses its list: the device must have kept its own copy
        for which, adder in (('receive', 'add_receive_part_callback'), ('finish', 'add_finish_processing_callback'),
                             ('shutdown', 'add_shutdown_callback'), ('restore', 'add_restored_callback')):
            ops = e.get('on_' + which)
            if ops:
                # one callback object per scripted operation: they run once per occurrence, in registration order, and a callback
                # registered a second time runs a second time
                cbs = [make_cb(nid(o), which, [op]) for op in ops]
                for _ in range(2 if e.get('dup_' + which) else 1):
                    for cb in cbs:
                        getattr(o, adder)(cb)
        return o
    W.make = make

    for e in sc['entities']:
        k = e['kind']
        ups = [] if e.get('late') else [W.objs[u] for u in e.get('up', [])]
        if k == 'group':
            g = Group('g%d' % e['gid'], [W.objs[d] for d in e['devices']])
            W.groups[e['gid']] = g
            W.objs[nid(g._input_device)] = g._input_device
            W.objs[nid(g._output_device)] = g._output_device
            continue
        if k == 'path':
            gp = W.groups[e['gid']].get_new_group_path(None, ups)
            W.objs[nid(gp)] = gp
            del ups[:]
            continue
        if k == 'maint':
            m = Maintainer(name='maint_%d' % (Asset._id_counter + 1 - W.base),
                           capacity=float('inf') if e['capacity'] is None else e['capacity'] / CUR[0], value=e['value'] / CUR[0])
            W.maints[nid(m)] = m
            continue
        if e.get('late'):
            W.late[LATE_BASE + e['late']] = e
            continue
        o = make(e, ups)
        W.objs[nid(o)] = o
    for n, a in sc['pools']:
        W.rm.add_resources('r%d' % n, a / CUR[0])
    return W


def _trace_home():
    """Environment._export_trace writes ~/Downloads/<name>_trace.json: give every worker process its own scratch home"""
    import os
    h = os.path.join(os.environ.get('VERIF_HOME_ROOT') or os.path.join(common.VERIF, 'work', 'home', 'adhoc'), str(os.getpid()))
    os.makedirs(os.path.join(h, 'Downloads'), exist_ok=True)
    os.environ['HOME'] = h
    return h


def _read_trace_file(env):
    import json, os
    try:
        with open(os.path.expanduser('~/Downloads/%s_trace.json' % env.name)) as fp:
            return len(json.load(fp))
    except (OSError, ValueError):
        return -1


def run_uop(W, o):
    k = o[0]
    if k == 'shutdown':
        W.objs[o[1]].shutdown()
    elif k == 'restore':
        W.objs[o[1]].restore_functionality()
    elif k == 'fail_at':
        W.objs[o[1]].schedule_failure(o[2] / CUR[0])
    elif k == 'block':
        W.objs[o[1]].block_input = bool(o[2])
    elif k == 'adjust':
        W.objs[o[1]].adjust_part_count(o[2])
    elif k == 'offset':
        W.objs[o[1]].offset_next_cycle_time(o[2] / CUR[0])
    elif k == 'rewire':
        lst = [W.objs[u] for u in o[2:] if u]
        W.objs[o[1]].set_upstream(lst)
        del lst[:]      # as above
    elif k == 'add_res':
        W.rm.add_resources('r%d' % o[1], o[2] / CUR[0])
    elif k == 'create_wo':
        W.maints[o[1]].create_work_order(W.objs[o[2]], None if o[3] == -1 else o[3])


# ------------------------------------------------------------------ abstraction of the implementation state
def kind_code(o):
    n = type(o).__name__
    return {'PartFlowController': 0, 'DecisionGate': 1, 'PartHandler': 2, 'Proc': 3, 'PartProcessor': 3, 'Buffer': 4, 'Source': 5,
            'Sink': 6, 'PartBatcher': 7, 'GroupPath': 8, 'GroupInput': 9, 'GroupOutput': 10}[n]


def enc_opt(x):
    return [0, 0] if x is None else [1, to_ticks(x)]


def enc_part(W, p):
    h = [W.key(d.id) for d in p._routing_history]
    g = [W.key(d.id) for d in p._group_pathing]
    q = p.quality
    return [W.key(p.id), to_ticks(p.value) if not isinstance(p, W.Batch) else 0, to_ticks(q), len(h)] + h + [len(g)] + g


def enc_item(W, it):
    if isinstance(it, W.Batch):
        out = [1] + enc_part(W, it) + [len(it.parts)]
        for p in it.parts:
            out += enc_part(W, p)
        return out
    return [0] + enc_part(W, it) + [0]


def enc_oitem(W, it):
    return [0] if it is None else [1] + enc_item(W, it)


def enc_dev(W, i, o):
    k = kind_code(o)
    holder = k in (2, 3, 4, 5, 6, 7)
    out = [i, k, 1 if o._block_input else 0]
    out += enc_opt(getattr(o, '_waiting_for_part_since', None))
    if holder:
        cyc = o._cycle_time
        out += [to_ticks(cyc), to_ticks(o._next_cycle_time_offset), 1 if o._waiting_for_downstream_space else 0]
        out += enc_oitem(W, o._part) + enc_oitem(W, o._output)
    else:
        out += [0, 0, 0, 0, 0]
    if k == 3:
        rr = o._reserved_resources
        out += [1 if o._is_shut_down else 0, -1 if rr is None else rr._verif_idx, 1 if o._waiting_for_resources else 0, to_ticks(o._uptime)]
        out += enc_opt(o._last_restore) + [to_ticks(o._time_in_use)] + enc_opt(o._last_use_start)
    else:
        out += [0, -1, 0, 0, 1, 0, 0, 0, 0]
    if k == 4:
        out += [o.level(), len(o._buffer)]
        for t, it in o._buffer:
            out += [to_ticks(t)] + enc_item(W, it)
    else:
        out += [0, 0]
    if k == 5:
        mp = o._max_produced_parts
        out += [-1 if mp == float('inf') else int(mp), o.produced_parts, to_ticks(o.cost_of_produced_parts), 0, 0]
    elif k == 6:
        out += [-1, 0, 0, o.received_parts_count, to_ticks(o.value_of_received_parts)]      # the public getters
    else:
        out += [-1, 0, 0, 0, 0]
    col = [W.key(p.id) for p in o.collected_parts] if k == 6 else []
    out += [len(col)] + col
    out += enc_oitem(W, o._in_progress_batch) if k == 7 else [0]
    vh = o._value_history
    out += [to_ticks(o._value), len(vh)]
    for label, t, dl, v in vh:
        out += [{'collected_part': 1, 'supplied_part': 2}.get(label, 9), to_ticks(t), to_ticks(dl), to_ticks(v)]
    ups = [W.key(u.id) for u in o._upstream]
    dws = [W.key(u.id) for u in o._downstream]
    out += [len(ups)] + ups + [len(dws)] + dws
    return out


def act_code(W, ev):
    a = ev.action
    if hasattr(a, '_verif_act'):
        return list(a._verif_act)
    f = getattr(a, 'func', None)
    if f is not None:
        if f.__name__ == '_start_work_order':
            return [6, a.keywords['request']._verif_id]
        if f.__name__ == '_finish_work_order':
            return [7, a.keywords['request']._verif_id]
    nm = getattr(a, '__name__', '')
    owner = getattr(a, '__self__', None)
    oid = W.key(owner.id) if owner is not None and hasattr(owner, 'id') else 0
    if nm == '_finish_cycle':
        return [1, oid]
    if nm == '_pass_part_downstream':
        return [2, oid]
    if nm == '_fail':
        return [3, oid]
    if nm == '_release_resources_if_idle':
        return [4, oid]
    if nm == '_check_pending_requests':
        return [5, 0]
    if nm == '_terminate':
        return [-1, 0]
    return [-99, 0]


def enc_event(W, ev):
    aid = W.key(ev.asset_id) if ev.asset_id > 0 else ev.asset_id
    if getattr(W, 'reduced', False):
        # comparisons between differently split runs: event numbers and weights are not comparable, the rest is
        return [to_ticks(ev.time), to_ticks(ev.event_type, PRIO), aid] + act_code(W, ev) + [1 if ev.cancelled else 0]
    return [ev._verif_eid, to_ticks(ev.time), to_ticks(ev.event_type, PRIO), int(round(ev.random_weight * common.WDEN)), aid] \
        + act_code(W, ev) + [1 if ev.cancelled else 0]


def req_list(d):
    return [[int(k[1:]), to_ticks(v)] for k, v in d.items()]


def snapshot(W, st, new_data):
    env, rm = W.env, W.rm
    out = [-777, st, W.Asset._id_counter - W.base, len(W.objs)]
    devs = {}
    for i in sorted(W.objs):
        e = enc_dev(W, i, W.objs[i])
        devs[i] = e
        out += e
    pools = [[int(k[1:]), to_ticks(u), to_ticks(c)] for k, (u, c) in rm._resources.items()]
    out.append(len(pools))
    for p in pools:
        out += p
    out.append(len(rm._waiting_requests))
    for r, cb in rm._waiting_requests:
        rl = req_list(r)
        out += [W.key(cb.__self__.id), len(rl)] + [v for na in rl for v in na]
    out.append(len(W.res_objs))
    for ro in W.res_objs:
        rl = req_list(ro._reserved_resources)
        out += [len(rl)] + [v for na in rl for v in na]
    out.append(len(W.maints))
    for mid in sorted(W.maints):
        m = W.maints[mid]
        out += [mid, to_ticks(m._utilization), to_ticks(m.value), len(m._request_queue)]
        for wo in m._request_queue:
            out += [wo._verif_id, W.key(wo.target.id), -1 if wo.tag is None else wo.tag, to_ticks(wo.needed_capacity)]
        out.append(len(m._active_requests))
        for wo in m._active_requests:
            out += [wo._verif_id, W.key(wo.target.id), -1 if wo.tag is None else wo.tag, to_ticks(wo.needed_capacity)]
    out.append(len(W.cblog))
    for c in W.cblog:
        out += [len(c)] + c
    out += [to_ticks(env.now), 1 if env._terminated else 0, len(env._events)]
    for ev in env._events:
        out += enc_event(W, ev)
    out.append(len(env._paused_events))
    for ev in env._paused_events:
        out += enc_event(W, ev) + enc_opt(ev.paused_at)
    out.append(len(new_data))
    for rec in new_data:
        out += rec
    return out, devs, pools


def enc_data(W, label, sub, dp):
    lab = LABELS[label]
    if lab == 1:
        return [1, int(sub[1:]), 3] + [to_ticks(v) for v in dp]
    sid = W.names[sub]
    if lab in (6, 7):
        return [lab, sid, 4, to_ticks(dp[0]), W.key(dp[1]), to_ticks(dp[2]), to_ticks(dp[3])]
    if lab == 8:
        return [lab, sid, 2, to_ticks(dp[0]), -1 if dp[1] is None else W.key(dp[1])]
    if lab == 9:
        return [lab, sid, 2, to_ticks(dp[0]), dp[1]]
    if lab == 10:
        return [lab, sid, 2, to_ticks(dp[0]), W.key(dp[1])]
    # maintainer records: (now, target name, tag, info)
    return [lab, sid, 4, to_ticks(dp[0]), W.names[dp[1]], -1 if dp[2] is None else dp[2], -1 if dp[3] is None else dp[3]]


def run_impl(sc, weights='patch', split=False, reduced=False):
    """weights: 'patch' (the deterministic source shared with the model), 'skipterm' (same, but run() markers do not consume a
    weight: tie-break choices held fixed across differently split runs) or 'seeded' (the real generator after random.seed).
    split: every run(d) is executed as run(d // 2) followed by run(d - d // 2).  reduced: see enc_event."""
    from simprocesd.model import EventType
    from simprocesd.model import resource_manager as rmmod
    from simprocesd.model.factory_floor import maintainer as mmod
    flat, obs = [-778, 1], []      # the model reports whether the initial world is well-formed (coq/Model/FamFloor.v wf_worldb)
    _trace_home()
    CUR[0] = sc.get('tick', _TICK8)
    with common.WeightPatch(sc['seed'], sc['mod'], mode=weights):
        orig_rr_init = rmmod.ReservedResources.__init__
        orig_wo_init = mmod._WorkOrder.__init__
        res_objs, wos = [], []

        def rr_init(self, *a, **kw):
            orig_rr_init(self, *a, **kw)
            self._verif_idx = len(res_objs)
            res_objs.append(self)

        def wo_init(self, *a, **kw):
            orig_wo_init(self, *a, **kw)
            wos.append(self)
        orig_create = mmod.Maintainer.create_work_order

        def create_work_order(self, *a, **kw):
            n = len(wos)
            r = orig_create(self, *a, **kw)
            if r:
                self._verif_accepted = getattr(self, '_verif_accepted', 0) + 1
            if len(wos) > n:
                cnt = getattr(self, '_verif_count', 0)
                wos[-1]._verif_id = cnt          # per-maintainer numbering, as in the model
                self._verif_count = cnt + 1
            return r
        rmmod.ReservedResources.__init__ = rr_init
        mmod._WorkOrder.__init__ = wo_init
        mmod.Maintainer.create_work_order = create_work_order
        try:
            with contextlib.redirect_stdout(io.StringIO()):
                W = build(sc)
            W.reduced = reduced
            W.res_objs = res_objs
            W.names = {o.name: i for i, o in W.objs.items()}
            W.names.update({m.name + '#%d' % i: i for i, m in W.maints.items()})
            for i, m in W.maints.items():
                W.names[m.name] = i
            env = W.env
            datalog = []
            steps = [0]
            orig_step = env.step

            W.fired = []
            W.popped = []

            def counted_step():
                steps[0] += 1
                if steps[0] > STEP_LIMIT:
                    raise TooLong()
                if env._events and not env._events[0].cancelled:
                    W.fired.append(act_code(W, env._events[0]))      # the event about to be executed
                if env._events and env._trace:
                    W.popped.append((env._events[0].time, env._events[0].asset_id))   # what an enabled event trace has to list
                orig_step()
            env.step = counted_step
            orig_add = env.add_datapoint

            tap = common.DataTap()

            def add_datapoint(label, sub, dp):
                datalog.append(enc_data(W, label, sub, dp))
                orig_add(label, sub, dp)
                tap.add(label, sub, dp)
            env.add_datapoint = add_datapoint

            W.uoplog = []

            def make_user(k):
                def action():
                    for o in sc['uops'][k]:
                        W.uoplog.append(list(o))
                        run_uop(W, o)
                action._verif_act = [8, k]
                return action
            ndata = 0
            for x in sc['ext']:
                st = 0
                try:
                    with contextlib.redirect_stdout(io.StringIO()):
                        k = x[0]
                        if k == 'init':
                            W.rm.initialize(env)
                            W.system._initialize_assets()
                            W.system._simulation_is_initialized = True
                        elif k == 'step':
                            env.step()
                        elif k == 'run':
                            # through System.simulate (already initialised: it only runs the environment); the event trace is
                            # on from the first run (C15)
                            if split and x[1] >= 2:
                                W.system.simulate((x[1] // 2) / CUR[0], trace=True, print_summary=False)
                                W.system.simulate((x[1] - x[1] // 2) / CUR[0], trace=True, print_summary=False)
                            else:
                                W.system.simulate(x[1] / CUR[0], trace=True, print_summary=False)
                            W.exported = _read_trace_file(env)
                        elif k == 'at':
                            env.schedule_event(x[1] / CUR[0], -5, make_user(x[2]), x[3] / PRIO)
                        elif k == 'now':
                            W.uoplog.append(list(x[1]))
                            run_uop(W, x[1])
                        elif k == 'late':
                            # Device(upstream=[...]) constructed between two events of an initialised simulation
                            e = W.late.pop(x[1])
                            o = W.make(e, [W.objs[u] for u in x[2:] if u], key=x[1])
                            W.objs[x[1]] = o
                            W.names[o.name] = x[1]
                except ValueError:
                    st = 1
                except IndexError:
                    st = 2
                except KeyError:
                    st = 4
                except RuntimeError:
                    st = 5
                except AssertionError:
                    st = 6
                except NotImplementedError:
                    st = 7
                new = datalog[ndata:]
                ndata = len(datalog)
                out, devs, pools = snapshot(W, st, new)
                flat += out
                obs.append(observe(W, x, st, devs, pools, new))
                obs[-1]['stored'] = tap.diff(env)
        finally:
            rmmod.ReservedResources.__init__ = orig_rr_init
            mmod._WorkOrder.__init__ = orig_wo_init
            mmod.Maintainer.create_work_order = orig_create
            for o in res_objs:
                o._reserved_resources = {}
    if obs and not reduced and weights == 'patch':
        obs[-1]['budget_probe'] = budget_probe(sc)
    return flat, obs


def budget_probe(sc):
    """An experiment on the implementation only (the scripted callbacks of the model cannot reconfigure other devices): a source with
    a finite budget whose budget is cut from a receive callback of the device that is just taking a part from it.  Whatever the
    numbers, the source must not have supplied more parts than its budget allows afterwards (C02, last clause)."""
    from simprocesd.model import System
    from simprocesd.model.factory_floor import Source, PartHandler, Sink
    b = 2 + sc['seed'] % 5
    k = 1 + (sc['seed'] // 5) % b          # the cut happens while the k-th part is handed over
    cut = -(1 + (sc['seed'] // 25) % (b + 3))
    with contextlib.redirect_stdout(io.StringIO()):
        system = System()
        src = Source('src', cycle_time=1, starting_parts=b)
        h = PartHandler('h', upstream=[src], cycle_time=(sc['seed'] % 3) / 2)
        snk = Sink('snk', upstream=[h])
        seen = []

        def cb(dev, part):
            seen.append(1)
            if len(seen) == k:
                src.adjust_part_count(cut)
        h.add_receive_part_callback(cb)
        system.simulate(4 * b + 8, print_summary=False)
    mx = src._max_produced_parts
    recs = system.simulation_data.get('supplied_new_part', {}).get('src', [])
    return dict(budget=b, k=k, cut=cut, produced=src.produced_parts, max=None if mx == float('inf') else int(mx),
                remaining=src.remaining_parts, received=snk.received_parts_count, supplied_records=len(recs))


def item_info(W, it):
    if it is None:
        return None
    batch = isinstance(it, W.Batch)
    leaves = [W.key(p.id) for p in it.parts] if batch else [W.key(it.id)]
    return dict(id=W.key(it.id), leaves=leaves, batch=batch, q=to_ticks(it.quality),
                v=sum(to_ticks(p.value) for p in it.parts) if batch else to_ticks(it.value),
                hist=[W.key(d.id) for d in it._routing_history], gpath=[W.key(d.id) for d in it._group_pathing],
                leaf_hists=[[W.key(d.id) for d in p._routing_history] for p in (it.parts if batch else [it])])


def observe(W, x, st, devs, pools, new):
    """structured observation for the monitors (written from the property texts)"""
    env = W.env
    o = dict(op=x, st=st, now=to_ticks(env.now), data=[list(r) for r in new], devices={}, pools=pools)
    for i, d in W.objs.items():
        k = kind_code(d)
        e = dict(kind=k, block=bool(d._block_input))
        if k in (2, 3, 4, 5, 6, 7):
            e['part'] = item_info(W, d._part)
            e['out'] = item_info(W, d._output)
            e['waiting_ds'] = bool(d._waiting_for_downstream_space)
            e['wait_since'] = None if d._waiting_for_part_since is None else to_ticks(d._waiting_for_part_since)
            e['cycle'] = to_ticks(d._cycle_time)
        if k == 3:
            e['shut'] = bool(d._is_shut_down)
            e['reserved'] = None if d._reserved_resources is None else req_list(d._reserved_resources._reserved_resources)
            e['req'] = None if d._resources_for_processing is None else req_list(d._resources_for_processing)
            # (before the simulation is initialised a device has no environment and the getters cannot be called)
            e['uptime'] = to_ticks(d.uptime) if d.env is not None else 0
            e['utilization'] = to_ticks(d.utilization_time) if d.env is not None else 0
        if k == 4:
            e['buf'] = [[to_ticks(t), item_info(W, it)] for t, it in d._buffer]
            e['level'] = d.level()
            e['capacity'] = None if d._capacity == float('inf') else int(d._capacity)
            e['min_delay'] = to_ticks(d._minimum_delay)
        if k == 5:
            e['produced'] = d.produced_parts
            e['budget'] = None if d._max_produced_parts == float('inf') else int(d._max_produced_parts)
            e['generated'] = d._part_generator._generated_part_counter
            e['value'] = to_ticks(d.value)
        if k == 6:
            e['received'] = d.received_parts_count
            e['value'] = to_ticks(d.value)
            e['collected'] = [W.key(p.id) for p in d.collected_parts]
        if k == 7:
            e['inprog'] = item_info(W, d._in_progress_batch)
            e['batch_size'] = d._output_batch_size
        e['up'] = [W.key(u.id) for u in d._upstream]
        e['down'] = [W.key(u.id) for u in d._downstream]
        e['value_hist'] = [[to_ticks(t), to_ticks(dl), to_ticks(v)] for _, t, dl, v in d._value_history]
        e['dev_value'] = to_ticks(d._value)
        o['devices'][i] = e
    o['maints'] = {i: dict(util=to_ticks(m._utilization), value=to_ticks(m.value), queue=len(m._request_queue), accepted=getattr(m, '_verif_accepted', 0),
                           active=[[W.key(wo.target.id), to_ticks(wo.needed_capacity)] for wo in m._active_requests],
                           capacity=None if m._capacity == float('inf') else to_ticks(m._capacity))
                   for i, m in W.maints.items()}
    o['queue'] = [[to_ticks(ev.time), W.key(ev.asset_id) if ev.asset_id > 0 else ev.asset_id] + act_code(W, ev) + [bool(ev.cancelled)]
                  for ev in env._events]
    o['paused'] = [[to_ticks(ev.time), W.key(ev.asset_id) if ev.asset_id > 0 else ev.asset_id] + act_code(W, ev) for ev in env._paused_events]
    tr = env._event_trace
    o['trace'] = dict(keys_ok=(list(tr.keys()) == list(range(len(tr)))), n=len(tr), popped=len(W.popped),
                      same=([(v['time'], v['asset_id']) for v in tr.values()] == list(W.popped)),
                      exported=getattr(W, 'exported', None))
    o['uops'] = list(W.uoplog)
    del W.uoplog[:]
    o['fired'] = list(W.fired)
    del W.fired[:]
    o['next_id'] = W.Asset._id_counter - W.base
    o['cblog'] = [list(c) for c in W.cblog]
    o['waiting_res'] = [[W.key(cb.__self__.id), req_list(r)] for r, cb in W.rm._waiting_requests]
    return o


from .floor_gen import gen                    # noqa: E402  (scenario generator)
from .floor_monitors import MONITORS, nontrivial   # noqa: E402


def stats(sc, obs):
    c = Counter()
    for e in sc['entities']:
        c['kind:' + e['kind']] += 1
    for o in obs:
        c['op:' + o['op'][0]] += 1
        if o['st']:
            c['status:%d' % o['st']] += 1
        c['records'] += len(o['data'])
    c['scenarios'] += 1
    return c


def shrink_candidates(sc):
    ext = sc['ext']
    for i in range(len(ext) - 1, -1, -1):
        if ext[i][0] != 'init':
            yield dict(sc, ext=ext[:i] + ext[i + 1:])
    for k, ops in enumerate(sc['uops']):
        for j in range(len(ops)):
            u2 = [list(u) for u in sc['uops']]
            u2[k] = ops[:j] + ops[j + 1:]
            yield dict(sc, uops=u2)


def locate(sc, flat, pos):
    n = flat[:pos + 1].count(-777) - 1
    return 'op #%d %s' % (n, sc['ext'][n] if 0 <= n < len(sc['ext']) else '?')
