"""Family F_sched: the real ActionScheduler in the real Environment.

Scenario = dict(seed, mod, cyclic (True/False/None=argument omitted), schedule=[[dur, state]...], ext=[op...])
  op = ('reg', obj, ov) | ('unreg', obj) | ('dreg', t, prio, obj, ov) | ('dunreg', t, prio, obj) | ('init',) | ('step',) | ('run', d)
  ov = -1 (default action) or an override id
"""
import contextlib
import io
from collections import Counter
from . import common
from .common import TICK, PRIO, to_ticks

FAMILY = 4
NAME = 'sched'
STEP_LIMIT = 2500


class Discard(Exception):
    pass


class TooLong(Discard):
    pass


def encode(sc):
    out = [0, sc['seed'], sc['mod'], 0, 0, 0, 0, 0]
    out += [50, 2 if sc['cyclic'] is None else (1 if sc['cyclic'] else 0), 0, 0, 0, 0, 0, 0]
    for d, s in sc['schedule']:
        out += [51, d, s, 0, 0, 0, 0, 0]
    code = {'reg': 52, 'unreg': 53, 'dreg': 54, 'dunreg': 55, 'init': 16, 'step': 14, 'run': 15}
    for x in sc['ext']:
        args = list(x[1:]) + [0] * 7
        out += [code[x[0]]] + args[:7]
    return out


def gen(rng, size='small'):
    n = rng.choice([1, 2, 2, 3, 4, 5])
    frac = rng.random() < 0.5
    schedule = []
    for _ in range(n):
        d = rng.choice([8, 8, 16, 24, 40]) if not frac else rng.choice([1, 2, 4, 4, 8, 12, 20])
        if rng.random() < 0.08:
            d = 0
        schedule.append([d, rng.randint(0, 3)])
    if sum(d for d, _ in schedule) == 0:
        schedule[0][0] = 8
    cyclic = rng.choice([True, True, False, None])
    objs = list(range(rng.randint(1, 4)))
    ext = []
    for o in objs:
        if rng.random() < 0.6:
            ext.append(('reg', o, rng.choice([-1, -1, 0, 1])))
    if rng.random() < 0.15 and objs:
        ext.append(('reg', objs[0], -1))
    ext.append(('init',))
    n_ops = rng.randint(3, 12) if size == 'small' else rng.randint(10, 40)
    est = 0
    # one scenario in seven: the scheduler is created between two System.simulate() calls (a first run has already taken place); it
    # must start at once, its timetable counted from the moment of its creation
    late = rng.random() < 0.15
    if late:
        est = rng.choice([4, 8, 12, 20])
        ext = [('run', est), ('init',)]
    # ... and one in seven: the scheduler is created by another asset while that asset is being initialised at the start of the
    # simulation (an asset that builds its own scheduler); it is part of the system from then on and must be started with the others
    nested = not late and rng.random() < 0.15
    if nested:
        ext = [('init',)]
    for _ in range(n_ops):
        r = rng.random()
        if r < 0.12:
            ext.append(('reg', rng.choice(objs), rng.choice([-1, 0, 1])))
        elif r < 0.2:
            ext.append(('unreg', rng.choice(objs)))
        elif r < 0.4:
            ext.append(('dreg', est + rng.choice([0, 4, 8, 8, 16, 24]), rng.choice([32, 184]), rng.choice(objs), rng.choice([-1, 0, 1])))
        elif r < 0.55:
            ext.append(('dunreg', est + rng.choice([0, 4, 8, 8, 16, 24]), rng.choice([32, 184]), rng.choice(objs)))
        elif r < 0.75:
            ext.append(('step',))
        else:
            d = rng.choice([4, 8, 16, 32, 64])
            ext.append(('run', d))
            est += d
    sc = dict(seed=rng.randint(0, 1000), mod=rng.choice([1, 3, 1 << 20]), cyclic=cyclic, schedule=schedule, ext=ext)
    if late:
        sc['late'] = True
    if nested:
        sc['nested'] = True
    return sc


def run_impl(sc):
    from simprocesd.model import System
    from simprocesd.model.factory_floor import ActionScheduler
    flat, obs = [], []
    with common.WeightPatch(sc['seed'], sc['mod']):
        system = System()
        env = system.env
        calls, results, datalog = [], [], []

        class Obj:
            """registered objects are looked up by equality (they are dictionary keys), not by identity"""
            def __init__(self, i):
                self.i = i

            def __eq__(self, other):
                return isinstance(other, Obj) and other.i == self.i

            def __hash__(self):
                return hash(('obj', self.i))

        class Sched(ActionScheduler):
            def default_action(self, obj, time, new_state):
                # last field: the scheduler, asked during the action, is in the state the timetable prescribes (2: a stale state)
                calls.append([obj.i, -1, to_ticks(time), ST(new_state), 1 if self.current_state == new_state else 2])

        # state number 3 is the Python value None: a legal state like any other (it must not be taken for "not started yet")
        def ST(x):
            return 3 if x is None else x
        schedule = [(d / TICK, None if s == 3 else s) for d, s in sc['schedule']]
        def create():
            if sc['cyclic'] is None:
                r = Sched(schedule, 'sched')
            else:
                r = Sched(schedule, 'sched', sc['cyclic'])
            schedule.append((0.125, -7))       # the caller goes on using its list: the scheduler must follow the timetable it was built with
            return r
        late = bool(sc.get('late'))
        nested = bool(sc.get('nested'))
        made = []
        if nested:
            from simprocesd.model.factory_floor import Asset

            class Maker(Asset):
                def initialize(self, env_):
                    super().initialize(env_)
                    made.append(create())
            Maker('maker')
        sched = None if (late or nested) else create()
        nobj = 1 + max([x[1] for x in sc['ext'] if x[0] in ('reg', 'unreg')] + [x[3] for x in sc['ext'] if x[0] in ('dreg', 'dunreg')] + [0])
        objs = [Obj(i) for i in range(nobj)]

        def make_override(k):
            def action(scheduler, obj, time, new_state):
                calls.append([obj.i, k, to_ticks(time), ST(new_state),
                              0 if scheduler is not sched else (1 if scheduler.current_state == new_state else 2)])
            return action
        overrides = {0: make_override(0), 1: make_override(1)}
        steps = [0]
        orig_step = env.step

        def counted_step():
            steps[0] += 1
            if steps[0] > STEP_LIMIT:
                raise TooLong()
            orig_step()
        env.step = counted_step
        orig_add = env.add_datapoint

        def add_datapoint(label, sub, dp):
            datalog.append((label, sub, dp))
            orig_add(label, sub, dp)
        env.add_datapoint = add_datapoint

        def reg(o, ov):
            r = sched.register_object(objs[o], None if ov == -1 else overrides[ov])
            results.append([0, o, 1 if r else 0])

        def unreg(o):
            r = sched.unregister_object(Obj(o))          # an equal key built afresh
            results.append([1, o, 1 if r else 0])

        def mk(kind, o, ov=None):
            def action():
                if kind == 2:
                    reg(o, ov)
                else:
                    unreg(o)
            action._verif_act = [kind, o]
            return action

        def act_code(ev):
            a = ev.action
            if hasattr(a, '_verif_act'):
                return a._verif_act
            nm = getattr(a, '__name__', '')
            if nm == '_update_state':
                return [1, 0]
            if nm == '_terminate':
                return [-1, 0]
            return [-99, 0]

        ovid = {id(v): k for k, v in overrides.items()}
        ndata = 0
        for x in sc['ext']:
            st = 0
            try:
                with contextlib.redirect_stdout(io.StringIO()):
                    k = x[0]
                    if k == 'reg':
                        reg(x[1], x[2])
                    elif k == 'unreg':
                        unreg(x[1])
                    elif k == 'dreg':
                        env.schedule_event(x[1] / TICK, -5, mk(2, x[3], x[4]), x[2] / PRIO)
                    elif k == 'dunreg':
                        env.schedule_event(x[1] / TICK, -5, mk(3, x[3]), x[2] / PRIO)
                    elif k == 'init':
                        if late:
                            if not any(y[0] == 'run' for y in sc['ext'][:sc['ext'].index(x)]):
                                raise Discard('a late scenario starts with a run')      # (a shrunk scenario that lost it)
                            sched = create()          # the System is initialised: constructing the asset starts it
                        elif nested:
                            # what System.simulate does first: the maker, initialised, creates the scheduler, which is initialised in turn
                            system.resource_manager.initialize(env)
                            system._initialize_assets()
                            system._simulation_is_initialized = True
                            sched = made[0]
                        else:
                            sched.initialize(env)
                    elif k == 'step':
                        env.step()
                    elif k == 'run':
                        if late:
                            system.simulate(x[1] / TICK, print_summary=False)
                        else:
                            env.run(x[1] / TICK)
            except ValueError:
                st = 1
            except IndexError:
                st = 2
            regs = [] if sched is None else [[o.i, -1 if a is None else ovid[id(a)]] for o, a in sched._registered_objects.items()]
            started = len(datalog) > 0          # (a state change has been recorded)
            out = [-777, st, 0 if sched is None else sched._schedule_index, ST(sched.current_state) if started else -1, len(regs)]
            for r in regs:
                out += r
            out.append(len(calls))
            for c in calls:
                out += c[:4]
            out.append(len(results))
            for r in results:
                out += r
            q = []
            for ev in env._events:
                aid = 1 if sched is not None and ev.asset_id == sched.id else ev.asset_id
                q.append([ev._verif_eid, to_ticks(ev.time), to_ticks(ev.event_type, PRIO), int(round(ev.random_weight * common.WDEN)), aid] + act_code(ev))
            out += [to_ticks(env.now), 1 if env._terminated else 0, len(q)]
            for e in q:
                out += e
            new = datalog[ndata:]
            ndata = len(datalog)
            out.append(len(new))
            drecs = []
            for label, sub, dp in new:
                if label != 'schedule_update':
                    raise Discard('unexpected label')
                rec = [5, 2, to_ticks(dp[0]), ST(dp[1])]
                drecs.append(rec)
                out += rec
            flat += out
            obs.append(dict(op=x, st=st, now=to_ticks(env.now), index=0 if sched is None else sched._schedule_index, state=(ST(sched.current_state) if started else None), regs=regs,
                            calls=[list(c) for c in calls], results=[list(r) for r in results], events=q, data=drecs))
    return flat, obs


def monitor_c18(sc, obs):
    """From the property text: timetable arithmetic + one action call per registered object per change."""
    v = []

    def bad(sig, what):
        v.append(dict(sig=sig, what=what))
    if not obs:
        return v
    n = len(sc['schedule'])
    cyclic = True if sc['cyclic'] is None else sc['cyclic']
    t0 = None
    updates = []
    for o in obs:
        if o['op'][0] == 'init' and t0 is None:
            t0 = o['now']
        updates += o['data']
    if t0 is None:
        return v
    # expected update times: state i begins at t0 + sum of durations before it
    exp, t, i = [], t0, 0
    horizon = obs[-1]['now']
    while t <= horizon and len(exp) < 5000:
        if not cyclic and i >= n:
            break
        d, s = sc['schedule'][i % n]
        exp.append((t, s))
        t += d
        i += 1
        if d == 0 and i > 4 * n and all(dd == 0 for dd, _ in sc['schedule']):
            break
    got = [(r[2], r[3]) for r in updates]
    # updates due exactly at the horizon may or may not have run yet (the run stops at the horizon): compare the common prefix, then lengths
    m = min(len(got), len(exp))
    if got[:m] != exp[:m]:
        k = next(j for j in range(m) if got[j] != exp[j])
        bad('C18/timetable', 'state change #%d happened at %s (time, state), timetable prescribes %s' % (k, got[k], exp[k]))
    elif len(got) > len(exp):
        bad('C18/extra-update', 'more state changes (%d) than the timetable prescribes up to time %d (%d)' % (len(got), horizon, len(exp)))
    elif len(got) < len([e for e in exp if e[0] < horizon]):
        bad('C18/missing-update', 'only %d state changes up to time %d, timetable prescribes %d' % (len(got), horizon, len([e for e in exp if e[0] < horizon])))
    # action calls: at each update exactly the objects registered at that moment, in registration order, once each
    # reconstruct registrations over time from the results log is not possible for deferred ops at equal instants, so
    # check the structural part: calls are grouped per update, no object twice within one update, arguments consistent
    calls = obs[-1]['calls']
    groups = {}
    for c in calls:
        groups.setdefault((c[2], c[3]), []).append(c)
    for c in calls:
        if c[4] == 0:
            bad('C18/wrong-scheduler-arg', 'an override action received a different scheduler object')
        if c[4] == 2:
            bad('C18/state-during-action', 'the action of object %d for the change to state %d at %d found the scheduler in another state' % (c[0], c[3], c[2]))
    upd_keys = Counter(got)
    for key, cs in groups.items():
        if key not in upd_keys:
            bad('C18/call-without-change', 'action invoked with (time, state)=%s but no state change happened then' % (key,))
            continue
        per_obj = Counter(c[0] for c in cs)
        for ob, cnt in per_obj.items():
            if cnt > upd_keys[key]:
                bad('C18/called-twice', 'object %d had its action invoked %d times for %d state change(s) at %s' % (ob, cnt, upd_keys[key], key))
    # objects registered throughout (never unregistered, registered before init, no deferred ops on them) must be called at every update
    touched = {x[1] for x in sc['ext'] if x[0] in ('unreg',)} | {x[3] for x in sc['ext'] if x[0] in ('dreg', 'dunreg')}
    init_i = next(i for i, x in enumerate(sc['ext']) if x[0] == 'init')
    stable = []
    for x in sc['ext'][:init_i]:
        if x[0] == 'reg' and x[1] not in touched and x[1] not in [s[0] for s in stable]:
            stable.append((x[1], x[2]))
    for ob, ov in stable:
        mine = [(c[2], c[3]) for c in calls if c[0] == ob]
        if mine != got:
            bad('C18/registered-not-called', 'object %d registered before the start was called at %s, state changes were %s' % (ob, mine[:6], got[:6]))
        if any(c[1] != ov for c in calls if c[0] == ob):
            bad('C18/override-ignored', 'object %d: override %d not respected' % (ob, ov))
    # registration order within one update for stable objects
    order = [s[0] for s in stable]
    for key, cs in groups.items():
        seq = [c[0] for c in cs if c[0] in order]
        if upd_keys.get(key, 0) == 1 and seq != [o for o in order if o in seq]:
            bad('C18/order', 'actions at %s ran in order %s, registration order is %s' % (key, seq, order))
    return v


MONITORS = {'C18': monitor_c18}


def stats(sc, obs):
    c = Counter()
    for o in obs:
        c['op:' + o['op'][0]] += 1
    c['scenarios'] += 1
    c['cyclic:%s' % sc['cyclic']] += 1
    if obs:
        c['updates'] += sum(len(o['data']) for o in obs)
        c['action_calls'] += len(obs[-1]['calls'])
    return c


def nontrivial(prop, sc, obs):
    if not obs:
        return False
    ups = sum(len(o['data']) for o in obs)
    return ups >= len(sc['schedule']) + 1 and len(obs[-1]['calls']) >= 2


def shrink_candidates(sc):
    ext = sc['ext']
    for i in range(len(ext) - 1, -1, -1):
        if ext[i][0] != 'init':
            yield dict(sc, ext=ext[:i] + ext[i + 1:])


def locate(sc, flat, pos):
    n = flat[:pos + 1].count(-777) - 1
    return 'op #%d %s' % (n, sc['ext'][n] if 0 <= n < len(sc['ext']) else '?')
