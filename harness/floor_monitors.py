"""Monitors for the floor properties, written from the property texts; they run on the implementation's observations."""
MONITORS = {}


def nontrivial(prop, sc, obs):
    return bool(obs) and sum(len(o['data']) for o in obs) >= 10
