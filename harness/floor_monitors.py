"""Monitors for the whole-system properties, written from the property texts.  They run on
the implementation's own observations (harness/fam_floor.py: observe) and are search aids:
they turn a broken tie or proof into a concrete failing input.  They are never the reason a
check passes (DESIGN.md section 4c)."""
from collections import Counter

HOLDERS = (2, 3, 4, 5, 6, 7)
SINGLE_SLOT = (2, 3, 5, 6)


def _ents(sc):
    """model id -> entity dict (groups take two ids: input then output)"""
    out, groups, n = {}, {}, 0
    for e in sc['entities']:
        if e['kind'] == 'group':
            n += 2
            groups[e['gid']] = dict(gin=n - 1, gout=n, devices=e['devices'], paths=[])
            out[n - 1] = dict(kind='gin', gid=e['gid'])
            out[n] = dict(kind='gout', gid=e['gid'])
            continue
        if e.get('late'):
            out[1000 + e['late']] = e       # constructed while the simulation runs: reserved key, takes no id at build time
            continue
        n += 1
        out[n] = e
        if e['kind'] == 'path':
            groups[e['gid']]['paths'].append(n)
    return out, groups


def _leaves(info):
    return [] if info is None else info['leaves']


def _items_in(dev):
    """(slot name, item info) for everything a device holds"""
    res = []
    for slot in ('part', 'out', 'inprog'):
        if dev.get(slot):
            res.append((slot, dev[slot]))
    for t, it in dev.get('buf', []):
        res.append(('buf', it))
    return res


def _time_may_advance(o):
    live = [e for e in o['queue'] if not e[-1]]
    return not any(e[0] <= o['now'] for e in live)


def _bad(v, sig, what):
    v.append(dict(sig=sig, what=what))


def _sink_counts(sc, obs, v, sig):
    """a sink's received-parts counter = the parts carried by the items of its received records (every part of a batch counts,
    an empty batch carries none).  The parts of an item are read from where it was seen before the op; a sink whose item was
    never seen (generated or re-batched and delivered within one op) is left out from then on."""
    ents, _ = _ents(sc)
    expect, known = Counter(), {}
    prev = None
    for i, o in enumerate(obs):
        if o['st'] not in (0, 2, 3):
            return
        seen = {}
        if prev is not None:
            for d, e in prev['devices'].items():
                for slot, it in _items_in(e):
                    if slot != 'inprog':
                        seen[it['id']] = len(it['leaves'])
        for r in o['data']:
            if r[0] == 6 and ents.get(r[1], {}).get('kind') == 'sink':
                if r[4] in seen and known.get(r[1], True):
                    expect[r[1]] += seen[r[4]]
                else:
                    known[r[1]] = False
        for d, e in o['devices'].items():
            if e['kind'] == 6 and known.get(d, True) and e['received'] != expect[d]:
                _bad(v, sig, 'op %d %s (t=%d): sink %d reports %d received parts, the items of its received_part records carry %d parts' % (
                    i, o['op'], o['now'], d, e['received'], expect[d]))
                return
        prev = o


# ------------------------------------------------------------------------------------------ C02
def monitor_c02(sc, obs):
    v = []
    ents, _ = _ents(sc)
    lost = []
    census_ok = True
    prev = None
    bp = obs[-1].get('budget_probe') if obs else None
    if bp and bp['max'] is not None and (bp['produced'] > bp['max'] or bp['produced'] > max(bp['budget'] + bp['cut'], bp['k'])):
        _bad(v, 'C02/over-budget-after-cut', 'a source with a budget of %d whose budget is adjusted by %d from the receive callback of the device taking its part #%d '
                                             'has supplied %d parts; its budget then allows %d' % (bp['budget'], bp['cut'], bp['k'], bp['produced'], bp['max']))
    for i, o in enumerate(obs):
        devs = o['devices']
        for r in o['data']:
            if r[0] == 8 and r[4] != -1:
                # the parts of a lost item are known only if it was seen in process in the failing device before this op (a
                # batch taken in and lost within one run was last seen, if at all, while it was still being filled)
                held = prev['devices'].get(r[1], {}).get('part') if prev else None
                if held and held['id'] == r[4]:
                    lost += held['leaves']
                else:
                    census_ok = False
        prev = o
        inside = []
        for d, e in devs.items():
            if e['kind'] == 6:
                continue
            for slot, it in _items_in(e):
                inside += it['leaves']
        dup = [x for x, c in Counter(inside).items() if c > 1]
        if dup:
            _bad(v, 'C02/duplicated', 'op %d %s: part(s) %s are held in two places at once' % (i, o['op'], dup[:4]))
        for d, e in devs.items():
            if e['kind'] in SINGLE_SLOT and e.get('part') and e.get('out'):
                _bad(v, 'C02/two-parts-one-slot', 'op %d: single-slot device %d holds an input part and a finished part' % (i, d))
            if e['kind'] == 5 and e['budget'] is not None and e['produced'] > e['budget']:
                _bad(v, 'C02/over-budget', 'op %d: source %d supplied %d parts with a budget of %d' % (i, d, e['produced'], e['budget']))
        if o['st'] not in (0, 2, 3):
            census_ok = False       # an aborted action (exception) is outside the well-posed class
        if census_ok:
            generated = 0
            for d, e in devs.items():
                if e['kind'] == 5:
                    n = ents[d].get('gen_batch', 0)
                    pat = ents[d].get('gen_pattern')
                    if pat:      # single parts (0), batches of n parts, empty batches (-1), cyclically
                        generated += sum((1 if pat[k % len(pat)] == 0 else max(pat[k % len(pat)], 0)) for k in range(e['generated']))
                    else:
                        generated += e['generated'] * (n if n > 0 else 1)
            sunk = sum(e['received'] for e in devs.values() if e['kind'] == 6)
            if generated != len(inside) + sunk + len(lost):
                _bad(v, 'C02/census', 'op %d %s (t=%d): %d parts generated but %d inside devices + %d received by sinks + %d reported lost' % (
                    i, o['op'], o['now'], generated, len(inside), sunk, len(lost)))
                census_ok = False
    return v


# ------------------------------------------------------------------------------------------ C03
def _would_accept(o, ents, groups, d, it, depth=0):
    e = o['devices'][d]
    k = e['kind']
    if depth > 40:
        return False
    if k in (2, 5, 6, 7):
        return not e['block'] and not e.get('part') and not e.get('out')
    if k == 3:
        if e['block'] or e['shut'] or e.get('part') or e.get('out'):
            return False
        if e['req'] is not None and e['reserved'] is None:
            pd = {p[0]: (p[1], p[2]) for p in o['pools']}
            for n, a in e['req']:
                if a > 0 and (n not in pd or pd[n][1] - pd[n][0] < a):
                    return False
        return True
    if k == 4:
        if e['block'] or e.get('part') or e.get('out'):
            return False
        return e['capacity'] is None or e['level'] + len(it['leaves']) <= e['capacity']
    if k in (0, 1):
        if e['block']:
            return False
        if k == 1 and not _decide(ents[d]['decider'], it):
            return False
        return any(_would_accept(o, ents, groups, x, it, depth + 1) for x in e['down'])
    if k == 8:
        if e['block']:
            return False
        it2 = dict(it, gpath=it['gpath'] + [d])
        return _would_accept(o, ents, groups, groups[ents[d]['gid']]['gin'], it2, depth + 1)
    if k == 9:
        if e['block']:
            return False
        return any(_would_accept(o, ents, groups, x, it, depth + 1) for x in e['down'])
    if k == 10:
        if not it['gpath']:
            return False
        p = it['gpath'][-1]
        it2 = dict(it, gpath=it['gpath'][:-1])
        return any(_would_accept(o, ents, groups, x, it2, depth + 1) for x in o['devices'][p]['down'])
    return False


def _decide(dc, it):
    c, a = dc
    if c == 0:
        return True
    if c == 1:
        return False
    if c == 2:
        return a <= it['q']
    if c == 3:
        return it['q'] < a
    if c == 4:
        return a <= it['v']
    if c == 5:
        return it['v'] < a
    if c == 6:
        return it['id'] % 2 == 0
    return it['id'] % 2 == 1


def monitor_c03(sc, obs):
    v = []
    ents, groups = _ents(sc)
    started = False
    for i, o in enumerate(obs):
        if o['op'][0] == 'init':
            started = True
        if not started or o['st'] not in (0, 2, 3):
            if started and o['st'] == 5 and o['op'][0] in ('run', 'step'):
                # "a finite-horizon run of a well-posed model always returns": a RuntimeError / RecursionError out of the event loop
                _bad(v, 'C03/run-raised', 'op %d %s (t=%d): the event loop raised a RuntimeError (RecursionError included) instead of returning' % (i, o['op'], o['now']))
            if o['st'] not in (0, 2, 3):
                return v
            continue
        if not _time_may_advance(o):
            continue
        for d, e in o['devices'].items():
            k = e['kind']
            ready = None
            if k in (2, 3, 5, 7) and e.get('out'):
                if k == 3 and e['shut']:
                    continue
                if k == 5 and e['budget'] is not None and e['budget'] - e['produced'] < 1:
                    continue
                ready = e['out']
            elif k == 4 and e['buf']:
                t0, it = e['buf'][0]
                if o['now'] - t0 >= e['min_delay']:
                    ready = it
            if ready is None:
                continue
            for x in e['down']:
                if _would_accept(o, ents, groups, x, ready):
                    _bad(v, 'C03/lost-wakeup', 'op %d %s (t=%d): device %d holds ready part %d, its downstream %d would accept it, and nothing is scheduled at this instant' % (
                        i, o['op'], o['now'], d, ready['id'], x))
                    return v
    return v


# ------------------------------------------------------------------------------------------ C05
def monitor_c05(sc, obs):
    v = []
    prev = {}
    for i, o in enumerate(obs):
        for d, e in o['devices'].items():
            if e['kind'] != 4:
                continue
            stored = sum(len(it['leaves']) for _, it in e['buf'])
            if e['level'] != stored:
                _bad(v, 'C05/level', 'op %d: buffer %d reports level %d but stores %d parts' % (i, d, e['level'], stored))
            if e['capacity'] is not None and stored > e['capacity']:
                _bad(v, 'C05/over-capacity', 'op %d: buffer %d stores %d parts, capacity %d' % (i, d, stored, e['capacity']))
            ids = [it['id'] for _, it in e['buf']]
            if d in prev:
                pids, ptimes = prev[d]
                # FIFO: what left is a prefix of what was stored; arrivals go to the back.  A stored entry is an arrival (time, id):
                # on re-entrant routes a part that left can come back later, as a new entry at the back
                old = list(zip(ptimes, pids))
                cur = [(t, it['id']) for t, it in e['buf']]
                k = 0
                while k < len(old) and old[k] not in cur:
                    k += 1
                rest = old[k:]
                if cur[:len(rest)] != rest:
                    _bad(v, 'C05/fifo', 'op %d %s: buffer %d held %s and now holds %s: parts did not leave in arrival order' % (i, o['op'], d, pids, ids))
                if o['op'][0] == 'step':
                    for j in range(k):
                        if o['now'] - ptimes[j] < e['min_delay']:
                            _bad(v, 'C05/min-delay', 'op %d: part %d left buffer %d after %d/8 < minimum delay %d/8' % (
                                i, pids[j], d, o['now'] - ptimes[j], e['min_delay']))
            prev[d] = (ids, [t for t, _ in e['buf']])
    return v


# ------------------------------------------------------------------------------------------ C06
def monitor_c06(sc, obs):
    v = []
    ents, _ = _ents(sc)
    plain = {}
    cyc, off, cbs_of = {}, {}, {}
    for d, e in ents.items():
        if e['kind'] in ('processor', 'handler'):
            plain[d] = e['cycle']
            cyc[d], off[d] = e['cycle'], 0
            cbs_of[d] = [c for c in e.get('on_receive', []) if c[0] in ('set_cycle', 'offset_next')]
    unknown = set()
    expect = {}       # (d, part) -> cycle time in effect when the part was accepted (receive callbacks included, one-shot offset floored at 0)
    accept = {}       # (d, part) -> time
    finished = set()
    down = {d: [] for d in plain}       # shutdown intervals [start, end or None]
    shut_prev = {}
    aborted = False
    epoch = 0          # several events happen inside one run(): shutdown intervals are then not observable exactly
    for i, o in enumerate(obs):
        if o['st'] not in (0, 2, 3):
            aborted = True
        if o['op'][0] == 'run':
            epoch += 1
            accept.clear()
        for d in plain:
            e = o['devices'].get(d)
            if e is None:       # not constructed yet
                continue
            s = e.get('shut', False)
            if s and not shut_prev.get(d, False):
                down[d].append([o['now'], None])
            if not s and shut_prev.get(d, False) and down[d] and down[d][-1][1] is None:
                down[d][-1][1] = o['now']
            shut_prev[d] = s
        if aborted:
            continue
        for u in o.get('uops', []):
            if u[0] == 'offset' and u[1] in plain:
                if o['op'][0] == 'run':
                    unknown.add(u[1])      # its order relative to the receives of that run is not observable
                off[u[1]] += u[2]
        for r in o['data']:
            lab, d = r[0], r[1]
            if d not in plain or d in unknown:
                continue
            if lab == 7:
                if (d, r[4]) in finished:
                    _bad(v, 'C06/finished-twice', 'op %d: device %d finished part %d twice' % (i, d, r[4]))
                finished.add((d, r[4]))
                for c in ents[d].get('on_finish', []):
                    if c[0] == 'offset_next':       # a one-shot offset requested by a finish callback: for the next part
                        off[d] += c[1]
            if lab == 6:
                finished.discard((d, r[4]))      # a new acceptance (re-entrant routes bring a part to the same device again)
                for c in cbs_of[d]:
                    if c[0] == 'set_cycle':
                        cyc[d] = c[1]
                    else:
                        off[d] += c[1]
                expect[(d, r[4])] = max(0, cyc[d] + off[d])
                off[d] = 0
            if o['op'][0] == 'run':
                continue
            if lab == 6:
                accept[(d, r[4])] = r[3]
            elif lab == 8 and r[4] != -1:
                accept.pop((d, r[4]), None)
            elif lab == 7:
                key = (d, r[4])
                if key not in accept:
                    continue
                t0 = accept.pop(key)
                dt = 0
                for a, b in down[d]:
                    b2 = r[3] if b is None else b
                    dt += max(0, min(b2, r[3]) - max(a, t0))
                if r[3] - t0 != expect.get(key, plain[d]) + dt:
                    _bad(v, 'C06/cycle-time', 'op %d: device %d released part %d after %d/8 (accepted %d, finished %d), cycle time %d/8 + shutdown time %d/8' % (
                        i, d, r[4], r[3] - t0, t0, r[3], expect.get(key, plain[d]), dt))
    # sources need their full cycle time per part; sinks accept no sooner than their cycle time after the previous part
    sup, rec = {}, {}
    for i, o in enumerate(obs):
        for r in o['data']:
            if r[0] == 10:
                sup.setdefault(r[1], []).append(r[3])
            if r[0] == 6 and ents.get(r[1], {}).get('kind') == 'sink':
                rec.setdefault(r[1], []).append(r[3])
    for d, ts in sup.items():
        c = ents[d]['cycle']
        for a, b in zip(ts, ts[1:]):
            if b - a < c:
                _bad(v, 'C06/source-cycle', 'source %d supplied parts at %d and %d, cycle time %d/8' % (d, a, b, c))
                break
    for d, ts in rec.items():
        c = ents[d]['cycle']
        for a, b in zip(ts, ts[1:]):
            if b - a < c:
                _bad(v, 'C06/sink-cycle', 'sink %d received parts at %d and %d, cycle time %d/8' % (d, a, b, c))
                break
    return v


# ------------------------------------------------------------------------------------------ C08
def monitor_c08(sc, obs):
    v = []
    ents, groups = _ents(sc)
    if any(x[0] == 'now' and x[1][0] == 'rewire' for x in sc['ext']) or any(u[0] == 'rewire' for ops in sc['uops'] for u in ops):
        return v      # the configured connections change during the run: the history checks below read the final layout only
    kinds = {d: e['kind'] for d, e in ents.items()}
    has_batches = any(e['kind'] == 'batcher' or e.get('gen_batch', 0) > 0 or any(z != 0 for z in e.get('gen_pattern', [])) for e in sc['entities'])
    gouts_of = {}
    for gid, g in groups.items():
        gouts_of[gid] = g
    idle_ref, ever_shut = {}, set()      # since when a single-slot device has been empty, from the observations alone
    for i, o in enumerate(obs):
        devs = o['devices']
        prev_idle = dict(idle_ref)
        for d, e in devs.items():
            if kinds.get(d) in ('handler', 'processor'):
                if e.get('shut'):
                    ever_shut.add(d)
                empty = not e.get('part') and not e.get('out')
                if o['op'][0] == 'init':
                    idle_ref[d] = o['now']
                elif not empty:
                    idle_ref.pop(d, None)
                elif d not in idle_ref and i > 0 and o['op'][0] == 'step':
                    idle_ref[d] = o['now']
                elif d not in idle_ref:
                    ever_shut.add(d)          # emptied inside a multi-event run: the instant is not observable

        def ok_edge(a, b, stack):
            da = devs[a]['down']
            if b in da:
                return True
            if kinds[a] == 'path':
                return b in devs[groups[ents[a]['gid']]['gin']]['down']
            # leaving a group through its output device: next hop is downstream of a path of that group; when that is the
            # output device of an enclosing group (nested groups), the part leaves the enclosing group in the same hand-over
            gouts = {g['gout']: gid for gid, g in groups.items()}

            def exits(gid, seen):
                res = set()
                if gid in seen:
                    return res
                for p in groups[gid]['paths']:
                    for x in devs[p]['down']:
                        if x in gouts:
                            res |= exits(gouts[x], seen | {gid})
                        else:
                            res.add(x)
                return res
            for x in da:
                if x in gouts and b in exits(gouts[x], frozenset()):
                    return True
            return False
        for d, e in devs.items():
            for slot, it in _items_in(e):
                for h in [it['hist']] + it['leaf_hists']:
                    if not h:
                        continue
                    for a, b in zip(h, h[1:]):
                        if not ok_edge(a, b, None):
                            _bad(v, 'C08/history-edge', 'op %d: part %d in device %d has routing history %s: %d -> %d is not a configured connection' % (
                                i, it['id'], d, h, a, b))
                            return v
                    if slot in ('part', 'out', 'buf') and it['hist'] and it['hist'][-1] != d and not (e['kind'] == 7):
                        _bad(v, 'C08/history-last', 'op %d: part %d is held by device %d but its routing history ends with %d' % (i, it['id'], d, it['hist'][-1]))
                        return v
                    if kinds.get(h[0]) != 'source' and not (it['batch'] and h is it['hist']):
                        _bad(v, 'C08/history-first', 'op %d: routing history of part %d starts with %d which is not a source' % (i, it['id'], h[0]))
                        return v
        # among several parallel single-slot devices able to take a part, the one idle longest receives it: a direct hand-over from a
        # device u to b while a sibling a of b (also directly downstream of u) was empty, operational, unblocked, needed no resources and
        # had been waiting for a part longer than b
        if i > 0 and o['op'][0] == 'step' and o['st'] == 0:
            pd = obs[i - 1]['devices']

            def lanes(xs, seen=()):
                # the single-slot devices reachable from xs directly or through plain (unblocked) flow controllers
                res = []
                for x in xs:
                    if x in seen or x not in pd:
                        continue
                    if kinds.get(x) == 'pfc':
                        if not pd[x]['block']:
                            res += lanes(pd[x].get('down', []), seen + (x,))
                    elif kinds.get(x) in ('handler', 'processor'):
                        res.append(x)
                return res
            for r in o['data']:
                b = r[1]
                if r[0] != 6 or kinds.get(b) not in ('handler', 'processor') or b not in pd or not devs[b].get('part'):
                    continue
                h = devs[b]['part']['hist']
                if len(h) < 2 or h[-1] != b or pd[b].get('wait_since') is None:
                    continue
                k = len(h) - 2
                while k > 0 and kinds.get(h[k]) == 'pfc':
                    k -= 1
                u = h[k]
                if u not in pd or kinds.get(u) == 'pfc':
                    continue
                cands = lanes(pd[u].get('down', []))
                if b not in cands:
                    continue
                took = set(r2[1] for r2 in o['data'] if r2[0] == 6)      # devices that took a part in during this event
                for a in cands:
                    ea = pd[a]
                    if a == b or ea.get('wait_since') is None or a in took:
                        continue
                    free = not ea.get('part') and not ea.get('out') and not ea['block'] and not ea.get('shut') and not ea.get('req') and not ents[a].get('on_receive')
                    if free and ea['wait_since'] < pd[b]['wait_since'] and not devs[a].get('part'):
                        _bad(v, 'C08/longest-idle', 'op %d (t=%d): part %d went from %d to %d (idle since %d) although %d had been idle since %d and was able to take it' % (
                            i, o['now'], r[4], u, b, pd[b]['wait_since'], a, ea['wait_since']))
                        return v
                    # the same with the idle times reconstructed from the observations (a device that has never had a part has been
                    # idle since the start, whatever it reports)
                    ia, ib = prev_idle.get(a), prev_idle.get(b)
                    if free and ia is not None and ib is not None and ia < ib and a not in ever_shut and b not in ever_shut and not devs[a].get('part'):
                        _bad(v, 'C08/longest-idle', 'op %d (t=%d): part %d went from %d to %d (empty since %d) although %d had been empty since %d and was able to take it' % (
                            i, o['now'], r[4], u, b, ib, a, ia))
                        return v
        # a gate judges the part as it is when it is offered: the received record of the device right behind a gate carries the part's
        # quality and value of that moment (nothing changes them between the gate and the acceptance, both in the same event)
        if o['op'][0] == 'step' and o['st'] == 0:
            for r in o['data']:
                if r[0] != 6 or r[1] not in devs:
                    continue
                held = [it for _, it in _items_in(devs[r[1]]) if it['id'] == r[4]]
                if not held or len(held[0]['hist']) < 2:
                    continue
                g = held[0]['hist'][-2]
                if kinds.get(g) == 'gate' and ents[g]['decider'][0] in (2, 3, 4, 5) and not held[0]['batch'] \
                        and not _decide(ents[g]['decider'], dict(q=r[5], v=r[6], id=r[4])):
                    _bad(v, 'C08/gate-state', 'op %d (t=%d): part %d (quality %d/8, value %d/8 on arrival) reached device %d through gate %d whose predicate rejects it' % (
                        i, o['now'], r[4], r[5], r[6], r[1], g))
                    return v
        # gate predicates: a part whose history contains a gate must satisfy it (for state-independent deciders: parity of id);
        # with batches the gate judged the batch object, not its parts
        for d, e in (devs.items() if not has_batches else []):
            for slot, it in _items_in(e):
                for g in it['hist']:
                    if kinds.get(g) == 'gate' and ents[g]['decider'][0] in (6, 7) and not _decide(ents[g]['decider'], it):
                        _bad(v, 'C08/gate', 'op %d: part %d passed gate %d whose predicate rejects it' % (i, it['id'], g))
                        return v
    # a sink's collected list is in arrival order
    order = {}
    for o in obs:
        for r in o['data']:
            if r[0] == 6 and kinds.get(r[1]) == 'sink':
                order.setdefault(r[1], []).append(r[4])
    if obs:
        for d, e in obs[-1]['devices'].items():
            if e['kind'] == 6 and ents[d].get('collect') and e['collected'] != order.get(d, []):
                _bad(v, 'C08/collected-order', 'sink %d collected %s but received %s' % (d, e['collected'][:8], order.get(d, [])[:8]))
    return v


# ------------------------------------------------------------------------------------------ C11
def monitor_c11(sc, obs):
    v = []
    for i, o in enumerate(obs):
        if o['st'] not in (0, 2, 3):
            return v
        held = Counter()
        for d, e in o['devices'].items():
            if e['kind'] != 3 or e['req'] is None:
                continue
            want = sorted([n, a] for n, a in e['req'] if a > 0)
            if e.get('part') and (e['reserved'] is None or sorted(e['reserved']) != want):
                _bad(v, 'C11/working-without-resources', 'op %d %s: processor %d has part %d in process but holds %s, requires %s' % (
                    i, o['op'], d, e['part']['id'], e['reserved'], want))
            if e['reserved'] is not None:
                if sorted(e['reserved']) != want:
                    _bad(v, 'C11/holds-wrong-amounts', 'op %d: processor %d holds %s, requires %s' % (i, d, e['reserved'], want))
                for n, a in e['reserved']:
                    held[n] += a
                if _time_may_advance(o) and not e.get('part') and not e['shut']:
                    _bad(v, 'C11/idle-holding', 'op %d %s (t=%d): idle operational processor %d still holds %s when time advances' % (
                        i, o['op'], o['now'], d, e['reserved']))
        for a, d in o.get('fired', []):
            if a == 3 and d in o['devices'] and o['devices'][d].get('reserved') is not None and \
                    (o['op'][0] == 'step' or (o['devices'][d]['shut'] and not o['devices'][d].get('part'))):
                _bad(v, 'C11/failure-keeps-resources', 'op %d (t=%d): processor %d failed and still holds %s' % (i, o['now'], d, o['devices'][d]['reserved']))
        for n, u, c in o['pools']:
            if u != held.get(n, 0):
                _bad(v, 'C11/usage-neq-holdings', 'op %d %s: pool r%d usage %d/8 but processors hold %d/8' % (i, o['op'], n, u, held.get(n, 0)))
    return v


# ------------------------------------------------------------------------------------------ C13
def monitor_c13(sc, obs):
    v = []
    ents, _ = _ents(sc)
    procs = [d for d, e in ents.items() if e['kind'] == 'processor']
    up = {d: 0 for d in procs}
    use = {d: 0 for d in procs}
    prev = None
    for i, o in enumerate(obs):
        if o['st'] not in (0, 2, 3):
            return v
        if prev is not None:
            dt = o['now'] - prev['now']
            for d in procs:
                pe = prev['devices'].get(d)
                if pe is None:       # constructed later: its clocks start at its creation
                    continue
                if prev['started'] and not pe['shut']:
                    up[d] += dt
                    if pe.get('part'):
                        use[d] += dt
        started = (prev['started'] if prev else False) or o['op'][0] == 'init'
        o['started'] = started
        if started and o['op'][0] in ('step', 'init', 'at', 'now'):
            for d in procs:
                e = o['devices'].get(d)
                if e is None:
                    continue
                if e['uptime'] != up[d]:
                    _bad(v, 'C13/uptime', 'op %d %s (t=%d): processor %d reports uptime %d/8, it was operational for %d/8' % (i, o['op'], o['now'], d, e['uptime'], up[d]))
                    return v
                if e['utilization'] != use[d]:
                    _bad(v, 'C13/utilization', 'op %d %s (t=%d): processor %d reports utilization %d/8, it processed parts for %d/8' % (
                        i, o['op'], o['now'], d, e['utilization'], use[d]))
                    return v
        if o['op'][0] == 'run':
            # several events: re-synchronise the integrals from the reported values
            for d in procs:
                if d in o['devices']:
                    up[d], use[d] = o['devices'][d]['uptime'], o['devices'][d]['utilization']
        # accepts / releases while down, lost parts
        if o['op'][0] == 'step' and prev is not None:
            for r in o['data']:
                d = r[1]
                if d not in prev['devices']:
                    continue
                if d in procs and r[0] == 6 and prev['devices'][d]['shut'] and o['devices'][d]['shut']:
                    _bad(v, 'C13/accepted-while-down', 'op %d: processor %d accepted part %d while shut down' % (i, d, r[4]))
                if d in procs and r[0] == 8:
                    pp = prev['devices'][d].get('part')
                    want = pp['id'] if pp else -1
                    if r[4] != want:
                        _bad(v, 'C13/lost-part', 'op %d: failure of processor %d reports lost part %d, the part in process was %d' % (i, d, r[4], want))
                    po = prev['devices'][d].get('out')
                    if po and (not o['devices'][d].get('out') or o['devices'][d]['out']['id'] != po['id']):
                        _bad(v, 'C13/finished-part-lost', 'op %d: failure of processor %d dropped its finished part %d' % (i, d, po['id']))
                    cbs = ents[d].get('on_shutdown', [])
                    if any(c[0] == 'log' for c in cbs) and want != -1:
                        new = [c for c in o['cblog'][len(prev['cblog']):] if c[1] == d and c[4] == 1]
                        # once per registered callback (the same callback registered twice runs twice), each told the lost part
                        nlog = sum(1 for c in cbs if c[0] == 'log') * (2 if ents[d].get('dup_shutdown') else 1)
                        if len(new) != nlog or any(c[5] != want for c in new):
                            _bad(v, 'C13/failure-not-reported', 'op %d (t=%d): failure of processor %d (lost part %d) reached its shutdown callbacks %d times%s' % (
                                i, o['now'], d, want, len(new), '' if not new else ' with part %d' % new[0][5]))
        prev = o
    _c13_stuck(sc, obs, v)
    return v


def _c13_stuck(sc, obs, v):
    ents, _ = _ents(sc)
    was_down = set()
    for o in obs:
        for d, e in o['devices'].items():
            if e['kind'] == 3 and e.get('shut'):
                was_down.add(d)
    for x in monitor_c03(sc, obs):
        import re
        m = re.search(r'device (\d+) holds ready part', x['what'])
        if m and int(m.group(1)) in was_down:
            _bad(v, 'C13/finished-part-stuck', 'a finished part kept through an outage does not leave after restoration: ' + x['what'])


# ------------------------------------------------------------------------------------------ C15
def monitor_c15(sc, obs):
    v = []
    for i, o in enumerate(obs):
        if o.get('stored'):
            # the tables the library keeps hold exactly the datapoints that were reported, one per occurrence, in order
            _bad(v, 'C15/stored-data', 'op %d %s: %s' % (i, o['op'], o['stored']))
            break
    _sink_counts(sc, obs, v, 'C15/received-parts')
    bp = obs[-1].get('budget_probe') if obs else None
    if bp and bp['produced'] != bp['supplied_records']:
        _bad(v, 'C15/supplied-count', 'budget probe (budget %d adjusted by %d while part #%d is handed over): the source reports %d produced parts, there are %d supplied_new_part records' % (
            bp['budget'], bp['cut'], bp['k'], bp['produced'], bp['supplied_records']))
    ents, _ = _ents(sc)
    last_level, last_pool = {}, {}
    counts = Counter()
    fails = Counter()
    has_batches = any(e['kind'] == 'batcher' or e.get('gen_batch', 0) > 0 or any(z != 0 for z in e.get('gen_pattern', [])) for e in sc['entities'])
    for i, o in enumerate(obs):
        for r in o['data']:
            if r[0] == 9:
                last_level[r[1]] = r[4]
            if r[0] == 1:
                last_pool[r[1]] = (r[4], r[5])
            counts[(r[0], r[1])] += 1
            if r[0] in (6, 7, 8, 9, 10) and r[3] > o['now']:
                _bad(v, 'C15/timestamp', 'op %d: a record carries time %d after the current time %d' % (i, r[3], o['now']))
        # a received record carries the part's quality and value as it arrived (before the receive callbacks of the device):
        # what the item looked like where it was seen before this event
        if i > 0 and o['op'][0] == 'step' and o['st'] == 0:
            seen = {}
            for pe in obs[i - 1]['devices'].values():
                for slot, it in _items_in(pe):
                    if slot != 'inprog':
                        seen[it['id']] = it
            for r in o['data']:
                if r[0] == 6 and r[4] in seen and (r[5], r[6]) != (seen[r[4]]['q'], seen[r[4]]['v']):
                    _bad(v, 'C15/received-stamp', 'op %d (t=%d): device %d recorded part %d as received with (quality, value) = (%d, %d)/8, it arrived with (%d, %d)/8' % (
                        i, o['now'], r[1], r[4], r[5], r[6], seen[r[4]]['q'], seen[r[4]]['v']))
                    return v
        for a, d in o.get('fired', []):
            if a == 3:
                fails[d] += 1
        if o['st'] not in (0, 2, 3):
            return v
        for d in fails:
            if counts[(8, d)] != fails[d]:
                _bad(v, 'C15/failure-record', 'op %d (t=%d): processor %d failed %d time(s), there are %d device_failure records' % (i, o['now'], d, fails[d], counts[(8, d)]))
        for d, e in o['devices'].items():
            if e['kind'] == 4 and d in last_level and last_level[d] != e['level']:
                _bad(v, 'C15/level-record', 'op %d %s: last recorded level of buffer %d is %d, its level is %d' % (i, o['op'], d, last_level[d], e['level']))
            if e['kind'] == 5 and counts[(10, d)] != e['produced']:
                _bad(v, 'C15/supplied-count', 'op %d: source %d reports %d produced parts, %d supplied_new_part records' % (i, d, e['produced'], counts[(10, d)]))
            if e['kind'] == 6 and not has_batches and counts[(6, d)] != e['received']:
                _bad(v, 'C15/received-count', 'op %d: sink %d reports %d received parts, %d received_part records' % (i, d, e['received'], counts[(6, d)]))
        # an enabled event trace lists exactly the executed events, in execution order, under consecutive indices; the file written at
        # the end of a run has as many entries
        tr = o.get('trace')
        if tr is not None:
            if not tr['keys_ok'] or tr['n'] != tr['popped'] or not tr['same']:
                _bad(v, 'C15/event-trace', 'op %d %s (t=%d): the event trace has %d entries%s, %d events were taken off the queue while tracing was on%s' % (
                    i, o['op'], o['now'], tr['n'], '' if tr['keys_ok'] else ' (indices not consecutive)', tr['popped'],
                    '' if tr['same'] or tr['n'] != tr['popped'] else ' (times / asset ids differ)'))
            elif o['op'][0] == 'run' and tr['exported'] is not None and tr['exported'] != tr['n']:
                _bad(v, 'C15/event-trace', 'op %d %s: the exported trace file has %d entries, the trace %d' % (i, o['op'], tr['exported'], tr['n']))
        # exactly one enter-queue record per accepted work order; started = records 3, finished = records 4, never more than accepted
        for m, e in o.get('maints', {}).items():
            if counts[(2, m)] != e['accepted']:
                _bad(v, 'C15/work-order-record', 'op %d (t=%d): maintainer %d accepted %d work orders, there are %d enter_queue records' % (
                    i, o['now'], m, e['accepted'], counts[(2, m)]))
            if not (counts[(4, m)] <= counts[(3, m)] <= counts[(2, m)]):
                _bad(v, 'C15/work-order-record', 'op %d (t=%d): maintainer %d has %d enter_queue, %d start and %d finish records' % (
                    i, o['now'], m, counts[(2, m)], counts[(3, m)], counts[(4, m)]))
        for n, u, c in o['pools']:
            if n in last_pool and last_pool[n] != (u, c):
                _bad(v, 'C15/resource-record', 'op %d %s: last recorded (usage, capacity) of r%d is %s, the pool has (%d, %d)' % (i, o['op'], n, last_pool[n], u, c))
    return v


# ------------------------------------------------------------------------------------------ C16
def monitor_c16(sc, obs):
    v = []
    ents, _ = _ents(sc)
    recv_value = Counter()
    prev = None
    for i, o in enumerate(obs):
        for r in o['data']:
            if r[0] == 6 and ents.get(r[1], {}).get('kind') == 'sink':
                recv_value[r[1]] += r[6]
        if o['st'] not in (0, 2, 3):
            return v
        # a maintainer's value drops by the cost of each order it starts: the cost its target quotes when the work starts, i.e. in
        # the target's state just before this event (the scripted processors quote a surcharge while they are shut down)
        if prev is not None and o['op'][0] == 'step' and 'maints' in o and 'maints' in prev:
            due = Counter()
            for r in o['data']:
                if r[0] == 3 and r[4] in prev['devices']:
                    t = r[4]
                    due[r[1]] += ents[t].get('wo_cost', 0) + (ents[t].get('wo_dur', 0) if prev['devices'][t]['shut'] else 0)
            # a source's value drops by the value of each part it supplies, as it is at the hand-over (the generator's value: nothing
            # has processed the part yet); sources with a constant item size only
            sup = Counter(r[1] for r in o['data'] if r[0] == 10)
            for d, n in sup.items():
                en = ents.get(d, {})
                if en.get('kind') == 'source' and not en.get('gen_pattern') and d in prev['devices']:
                    per = en['gen_value'] * max(en.get('gen_batch', 0), 1)
                    dv = o['devices'][d]['dev_value'] - prev['devices'][d]['dev_value']
                    if dv != -per * n:
                        _bad(v, 'C16/source-value', 'op %d (t=%d): source %d supplied %d item(s) worth %d/8 each at the hand-over, its value changed by %d/8' % (
                            i, o['now'], d, n, per, dv))
            for m, e in o['maints'].items():
                if m in prev['maints'] and e['value'] - prev['maints'][m]['value'] != -due[m]:
                    _bad(v, 'C16/work-order-cost', 'op %d (t=%d): maintainer %d started orders costing %d/8 in all, its value changed by %d/8' % (
                        i, o['now'], m, due[m], e['value'] - prev['maints'][m]['value']))
        prev = o
        for d, e in o['devices'].items():
            hist = e['value_hist']
            tot = 0
            for t, dl, val in hist:
                tot += dl
                if val != tot:
                    _bad(v, 'C16/running-total', 'op %d: value history of device %d has running total %d/8 after changes summing to %d/8' % (i, d, val, tot))
                if dl == 0:
                    _bad(v, 'C16/zero-recorded', 'op %d: value history of device %d records a zero change' % (i, d))
            if e['dev_value'] != tot:
                _bad(v, 'C16/value-neq-history', 'op %d: device %d is worth %d/8, its history sums to %d/8' % (i, d, e['dev_value'], tot))
            if e['kind'] == 6 and e['value'] != recv_value[d]:
                _bad(v, 'C16/sink-value', 'op %d: sink %d is worth %d/8, the parts it received were worth %d/8' % (i, d, e['value'], recv_value[d]))
    return v


# ------------------------------------------------------------------------------------------ C17
def monitor_c17(sc, obs):
    v = []
    _sink_counts(sc, obs, v, 'C17/sink-count')
    arrived, left = {}, {}
    prev = None
    for i, o in enumerate(obs):
        if o['st'] not in (0, 2, 3):
            return v
        for d, e in o['devices'].items():
            if e['kind'] == 4:
                stored = sum(len(it['leaves']) for _, it in e['buf']) + (len(e['part']['leaves']) if e.get('part') else 0)
                if e['level'] != stored:
                    _bad(v, 'C17/buffer-level', 'op %d (t=%d): buffer %d reports level %d, it stores %d parts (every part of a batch counts)' % (i, o['now'], d, e['level'], stored))
                    return v
        # routing-history updates of a batch are applied to every part it contains: a batch held by a device other than a
        # batcher (which unpacks on arrival) has that device as the last history entry of the batch and of each of its parts
        for d, e in o['devices'].items():
            if e['kind'] == 7:
                # a batcher: every part it holds (unpacked or not) arrived here, alone or inside a batch
                for slot, it in _items_in(e):
                    hs = it['leaf_hists'] if it['batch'] else [it['hist']]
                    for pid, lh in zip(it['leaves'] if it['batch'] else [it['id']], hs):
                        if not lh or lh[-1] != d:
                            _bad(v, 'C17/batch-history', 'op %d (t=%d): batcher %d holds part %d whose routing history ends with %s' % (
                                i, o['now'], d, pid, lh[-1:] or 'nothing'))
                            return v
                continue
            for slot, it in _items_in(e):
                if it['batch'] and slot in ('part', 'out', 'buf') and it['hist'] and it['hist'][-1] == d:
                    for pid, lh in zip(it['leaves'], it['leaf_hists']):
                        if not lh or lh[-1] != d:
                            _bad(v, 'C17/batch-history', 'op %d (t=%d): batch %d is held by device %d, the history of its part %d ends with %s' % (
                                i, o['now'], it['id'], d, pid, lh[-1:] or 'nothing'))
                            return v
        for d, e in o['devices'].items():
            if e['kind'] != 7:
                continue
            n = e['batch_size']
            if e.get('out'):
                if n is None and e['out']['batch']:
                    _bad(v, 'C17/not-single', 'op %d: batcher %d configured for single parts offers a batch' % (i, d))
                if n is not None and (not e['out']['batch'] or len(e['out']['leaves']) != n):
                    _bad(v, 'C17/batch-size', 'op %d: batcher %d configured for batches of %d offers %s' % (i, d, n, e['out']['leaves']))
            if e.get('inprog') and n is not None and len(e['inprog']['leaves']) >= n:
                _bad(v, 'C17/inprogress-overfull', 'op %d: batcher %d keeps %d parts in an unfinished batch of size %d' % (i, d, len(e['inprog']['leaves']), n))
            # order: everything inside, read output first, then in-progress, then the input still to unpack, is in arrival order
            seq = _leaves(e.get('out')) + _leaves(e.get('inprog')) + _leaves(e.get('part'))
            arr = arrived.setdefault(d, [])
            for x in seq:
                if x not in arr:
                    arr.append(x)
            pos = [arr.index(x) for x in seq]
            if pos != sorted(pos):
                _bad(v, 'C17/order', 'op %d: batcher %d holds parts %s, they arrived in order %s' % (i, d, seq, [arr[p] for p in sorted(pos)]))
            if prev is not None and o['op'][0] == 'step' and d in prev['devices']:
                pe = prev['devices'][d]
                for r in o['data']:
                    if r[0] == 6 and r[1] == d and (pe.get('part') or pe.get('out')):
                        _bad(v, 'C17/accepted-while-busy', 'op %d: batcher %d accepted item %d while it still had input to unpack or output waiting' % (i, d, r[4]))
        prev = o
    return v


# ------------------------------------------------------------------------------------------ C01 (whole systems)
def monitor_c01(sc, obs):
    """a run of duration d started at t0 (here through System.simulate) ends with the clock at t0 + d and nothing live that was due by then"""
    v = []
    for i, o in enumerate(obs):
        if o['op'][0] != 'run' or o['st'] != 0 or i == 0:
            continue
        t0, d = obs[i - 1]['now'], o['op'][1]
        if o['now'] != t0 + d:
            _bad(v, 'C01/run-end-time', 'op %d: run(%d/8) started at %d/8 ended with the clock at %d/8' % (i, d, t0, o['now']))
            return v
        due = [q for q in o['queue'] if not q[-1] and q[0] <= o['now']]
        if due:
            _bad(v, 'C01/run-left-due-events', 'op %d: run(%d/8) started at %d/8 left live events due by then in the queue: %s' % (i, d, t0, due[:3]))
            return v
    return v


MONITORS = {'C01': monitor_c01, 'C02': monitor_c02, 'C03': monitor_c03, 'C05': monitor_c05, 'C06': monitor_c06, 'C08': monitor_c08,
            'C11': monitor_c11, 'C13': monitor_c13, 'C15': monitor_c15, 'C16': monitor_c16, 'C17': monitor_c17}


def nontrivial(prop, sc, obs):
    if not obs:
        return False
    recs = Counter(r[0] for o in obs for r in o['data'])
    kinds = Counter(e['kind'] for e in sc['entities'])
    if prop in ('C05',):
        return kinds['buffer'] > 0 and recs[9] >= 4
    if prop in ('C06', 'C13'):
        return recs[8] + sum(1 for o in obs for q in o['paused']) > 0 and recs[7] >= 2
    if prop == 'C11':
        return any(e.get('req') for e in sc['entities']) and recs[1] >= 4
    if prop == 'C17':
        return kinds['batcher'] > 0 and recs[6] >= 6
    if prop == 'C08':
        return (kinds['gate'] + kinds['path'] > 0) and recs[6] >= 6
    return recs[6] >= 8 and recs[10] >= 3
