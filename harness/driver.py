"""The check driver: build (facts -> Coq -> extraction), assumptions, correspondence,
monitors, verdict, evidence.  DESIGN.md section 5."""
import fcntl
import glob
import importlib
import hashlib, json
import os
import random
import re
import subprocess
import sys
import time
import traceback
from collections import Counter
import multiprocessing
import multiprocessing.pool


class _NoDaemonProcess(multiprocessing.Process):
    # workers may start processes of their own (C14 exercises System.simulate_multiple_times with worker processes)
    @property
    def daemon(self):
        return False

    @daemon.setter
    def daemon(self, value):
        pass


class _NoDaemonContext(type(multiprocessing.get_context())):
    Process = _NoDaemonProcess


class Pool(multiprocessing.pool.Pool):
    def __init__(self, *args, **kwargs):
        kwargs['context'] = _NoDaemonContext()
        super().__init__(*args, **kwargs)

from . import common
from .props import PROPS

VERIF = common.VERIF
COQ = os.path.join(VERIF, 'coq')
WORK = os.path.join(VERIF, 'work')
NPROC = int(os.environ.get('VERIF_JOBS', '16'))
ALLOWED_AXIOMS = set()      # stdlib axioms a proof is known to use would be named here (none so far)


def sh(cmd, cwd=None, timeout=1800, env=None):
    try:
        p = subprocess.run(cmd, cwd=cwd, shell=isinstance(cmd, str), capture_output=True, text=True,
                           timeout=timeout, env=env)
        return p.returncode, p.stdout + p.stderr
    except subprocess.TimeoutExpired as e:
        out = (e.stdout or b'')
        if isinstance(out, bytes):
            out = out.decode(errors='replace')
        return 124, out + '\nTIMEOUT after %ss: %s' % (timeout, cmd)


class Lock:
    def __enter__(self):
        self.f = open(os.path.join(VERIF, '.build.lock'), 'w')
        fcntl.flock(self.f, fcntl.LOCK_EX)
        return self

    def __exit__(self, *a):
        fcntl.flock(self.f, fcntl.LOCK_UN)
        self.f.close()


# --------------------------------------------------------------------------- build
def v_files():
    out = []
    for d in ('Model', 'Proofs', 'Props', 'Tie', 'Gen', 'Findings'):
        out += sorted(glob.glob(os.path.join(COQ, d, '*.v')))
    return [os.path.relpath(f, COQ) for f in out]


def write_if_changed(path, text):
    old = None
    if os.path.exists(path):
        with open(path) as f:
            old = f.read()
    if old != text:
        with open(path, 'w') as f:
            f.write(text)
        return True
    return False


def regen_project():
    head = ['-Q . SimVerif',
            '-arg -w -arg -notation-overridden,-deprecated-hint-without-locality,-deprecated-instance-without-locality,-unused-pattern-matching-variable']
    changed = write_if_changed(os.path.join(COQ, '_CoqProject'), '\n'.join(head + v_files()) + '\n')
    if changed or not os.path.exists(os.path.join(COQ, 'Makefile')):
        rc, out = sh('coq_makefile -f _CoqProject -o Makefile', cwd=COQ, timeout=120)
        if rc != 0:
            raise RuntimeError('coq_makefile failed: ' + out)


def run_pyfacts():
    rc, out = sh([sys.executable, os.path.join(VERIF, 'tools', 'pyfacts.py'), common.REPO,
                  os.path.join(COQ, 'Gen', 'Facts.v')], timeout=120)
    return rc, out.strip()


def make(targets, timeout=2400, keep_going=True):
    if not targets:
        return 0, ''
    cmd = ['make', '-j%d' % NPROC] + (['-k'] if keep_going else []) + targets
    return sh(cmd, cwd=COQ, timeout=timeout)


def model_vos():
    return [f[:-2] + '.vo' for f in v_files() if f.startswith('Model/')]


def build_simmodel(force=False):
    """Extract the model and compile the OCaml driver when anything it depends on is newer."""
    binp = common.SIMMODEL
    deps = glob.glob(os.path.join(COQ, 'Model', '*.vo')) + glob.glob(os.path.join(VERIF, 'ocaml', '*.ml')) \
        + [os.path.join(COQ, 'Extract.v')]
    if not force and os.path.exists(binp) and all(os.path.getmtime(d) <= os.path.getmtime(binp) for d in deps):
        return 0, 'simmodel up to date'
    gen = os.path.join(VERIF, 'ocaml', 'gen')
    sh(['rm', '-rf', gen])
    os.makedirs(gen)
    rc, out = sh(['coqc', '-Q', COQ, 'SimVerif', os.path.join(COQ, 'Extract.v'), '-o', os.path.join(gen, 'Extract.vo')],
                 cwd=gen, timeout=600)
    if rc != 0:
        return rc, 'extraction failed:\n' + out
    sh('cp ../families.ml ../driver.ml .', cwd=gen)
    rc, out = sh('ocamlfind ocamlopt -O2 -w -a -o ../simmodel $(ocamlfind ocamldep -sort *.ml *.mli)', cwd=gen, timeout=600)
    if rc != 0:
        return rc, 'ocaml build failed:\n' + out
    return 0, 'simmodel rebuilt'


def dep_closure(vfile):
    """Transitive closure of .v files a file depends on (from coq_makefile's .Makefile.d)."""
    dpath = os.path.join(COQ, '.Makefile.d')
    deps = {}
    if os.path.exists(dpath):
        for line in open(dpath):
            if ':' not in line:
                continue
            lhs, rhs = line.split(':', 1)
            tgt = [t for t in lhs.split() if t.endswith('.vo')]
            if not tgt:
                continue
            srcs = [t[:-3] + '.v' for t in rhs.split() if t.endswith('.vo') and not t.startswith('/')]
            deps[tgt[0][:-3] + '.v'] = srcs
    seen, todo = [], [vfile]
    while todo:
        f = todo.pop()
        if f in seen:
            continue
        seen.append(f)
        todo += deps.get(f, [])
    return sorted(seen)


STMT_RE = re.compile(r'^\s*(Lemma|Theorem|Corollary|Example|Fact|Remark)\s+(\w+)', re.M)


def count_obligations(files):
    n = 0
    for f in files:
        p = os.path.join(COQ, f)
        if os.path.exists(p):
            n += len(STMT_RE.findall(open(p).read()))
    return n


def count_discharged(files):
    """statements of the files that did compile in this build (their .vo is at least as new as the source)"""
    n = 0
    for f in files:
        p = os.path.join(COQ, f)
        vo = p[:-2] + '.vo'
        if os.path.exists(p) and os.path.exists(vo) and os.path.getmtime(vo) >= os.path.getmtime(p):
            n += len(STMT_RE.findall(open(p).read()))
    return n


def first_error(log):
    m = re.search(r'File "\./([^"]+)", line (\d+)[^\n]*\n((?:.*\n){0,8})', log)
    if m:
        return m.group(1), int(m.group(2)), m.group(3).strip()[:600]
    return None, None, log[-600:]


def failing_statement(vfile, line):
    """Name of the lemma/theorem enclosing a line."""
    try:
        src = open(os.path.join(COQ, vfile)).read().split('\n')
    except OSError:
        return None
    for i in range(min(line, len(src)) - 1, -1, -1):
        m = STMT_RE.match(src[i])
        if m:
            return m.group(2)
    return None


def print_assumptions(prop, vfile):
    text = open(os.path.join(COQ, vfile)).read()
    names = re.findall(r'^\s*Theorem\s+(\w+)', text, re.M)
    d = os.path.join(WORK, 'assum')
    os.makedirs(d, exist_ok=True)
    mod = vfile[:-2].replace('/', '.')
    src = 'From SimVerif Require Import %s.\n' % mod + ''.join(
        'Print Assumptions %s.\n' % n for n in names)
    path = os.path.join(d, 'Assum_%s.v' % prop)
    with open(path, 'w') as f:
        f.write(src)
    rc, out = sh(['coqc', '-Q', COQ, 'SimVerif', path], cwd=d, timeout=600)
    res = {}
    if rc != 0:
        return names, None, out
    # split output per theorem: each answer is either "Closed under the global context" or "Axioms:\n ..."
    chunks = re.split(r'(?=Closed under the global context|Axioms:)', out)
    chunks = [c.strip() for c in chunks if c.strip()]
    for n, c in zip(names, chunks):
        res[n] = c
    return names, res, out


def build_for(prop, cfg, log):
    """Returns dict with keys: fatal, facts_ok, proof_ok, broken (description), assumptions, obligations, files."""
    r = dict(fatal=None, facts_ok=True, proof_ok=True, broken=[], assumptions={}, obligations=0, discharged=0,
             files=[], theorems=[])
    with Lock():
        rc, out = run_pyfacts()
        log.append('pyfacts: ' + out)
        if rc != 0:
            r['facts_ok'] = False
            r['broken'].append(dict(kind='facts', what='tools/pyfacts.py could not read the source: ' + out))
        regen_project()
        rc, out = make(model_vos(), keep_going=False)
        if rc != 0:
            r['fatal'] = 'model does not build: ' + out[-2000:]
            return r
        rc, out = build_simmodel()
        log.append(out.split('\n')[0])
        if rc != 0:
            r['fatal'] = out[-2000:]
            return r
        targets = [cfg['vfile'][:-2] + '.vo'] + [t[:-2] + '.vo' for t in cfg.get('ties', [])]
        rc, out = make(targets)
        if rc != 0:
            f, line, msg = first_error(out)
            stmt = failing_statement(f, line) if f else None
            r['proof_ok'] = False
            kind = 'tie' if f and (f.startswith('Tie/') or f.startswith('Gen/')) else 'proof'
            r['broken'].append(dict(kind=kind, file=f, line=line, statement=stmt, message=msg))
        files = set()
        for t in [cfg['vfile']] + cfg.get('ties', []):
            files |= set(dep_closure(t))
        r['files'] = sorted(files)
        r['obligations'] = count_obligations(r['files'])
        if r['proof_ok']:
            names, res, out = print_assumptions(prop, cfg['vfile'])
            r['theorems'] = names
            if res is None:
                r['proof_ok'] = False
                r['broken'].append(dict(kind='proof', file=cfg['vfile'], statement='Print Assumptions', message=out[-600:]))
            else:
                r['assumptions'] = res
                for n, a in res.items():
                    if not a.startswith('Closed under the global context'):
                        axs = set(re.findall(r'^\s*([\w\.]+)\s*:', a, re.M))
                        if not axs <= ALLOWED_AXIOMS:
                            r['proof_ok'] = False
                            r['broken'].append(dict(kind='axioms', statement=n, message=a[:600]))
            if r['proof_ok']:
                r['discharged'] = r['obligations']
        if not r['proof_ok']:
            r['discharged'] = count_discharged(r['files'])
    return r


# --------------------------------------------------------------------------- correspondence
def fam_module(name):
    return importlib.import_module('harness.fam_' + name)


def _worker(args):
    famname, sc, props = args
    fam = fam_module(famname)
    try:
        flat, obs = fam.run_impl(sc)
    except fam.Discard as e:
        return ('skip', str(e))
    except common.OffGrid as e:
        return ('crash', 'off-grid value observed on the implementation: %s' % e, {}, {})
    except Exception as e:
        tb = traceback.format_exc()
        return ('crash', '%s: %s' % (type(e).__name__, e), tb[-1500:], {})
    mon = {}
    for p in props:
        f = fam.MONITORS.get(p)
        if f:
            try:
                mon[p] = f(sc, obs)
            except Exception as e:
                mon[p] = [dict(sig='monitor-crash', what='monitor raised %s: %s' % (type(e).__name__, e))]
    st = fam.stats(sc, obs)
    nt = {p: bool(fam.nontrivial(p, sc, obs)) for p in props}
    return ('ok', flat, mon, st, nt)


def load_corpus(famname):
    out = []
    for f in sorted(glob.glob(os.path.join(VERIF, 'corpus', famname, '*.json'))):
        with open(f) as fh:
            d = json.load(fh)
        out.append((os.path.basename(f), d['scenario'] if 'scenario' in d else d))
    return out


def run_family(famname, prop, n, size, seed, pool, with_corpus=True):
    fam = fam_module(famname)
    scs = []
    if with_corpus:
        scs += [(name, sc) for name, sc in load_corpus(famname)]
    for i in range(n):
        rng = random.Random('%s/%s/%s/%d' % (seed, famname, size, i))
        scs.append(('gen-%d' % i, fam.gen(rng, size)))
    res = dict(family=famname, evaluations=0, skipped=0, mismatches=[], violations=[], stats=Counter(),
               nontrivial=0, distinct=set(), samples=[], ints=0)
    # in batches: the integer traces of a few hundred scenarios at a time (a thorough run of 12 000 floor scenarios held
    # more than 10 GB when everything was kept until the end)
    BATCH = 400
    for b0 in range(0, len(scs), BATCH):
        _run_batch(fam, famname, prop, scs[b0:b0 + BATCH], pool, res)
    return res


def _run_batch(fam, famname, prop, scs, pool, res):
    results = pool.map(_worker, [(famname, sc, [prop]) for _, sc in scs], chunksize=4)
    ok_idx = [i for i, r in enumerate(results) if r[0] == 'ok']
    model_out = common.run_model(fam.FAMILY, [fam.encode(scs[i][1]) for i in ok_idx]) if ok_idx else []
    for j, i in enumerate(ok_idx):
        name, sc = scs[i]
        _, flat, mon, st, nt = results[i]
        res['evaluations'] += 1
        res['ints'] += len(flat)
        res['stats'].update(st)
        key = hashlib.sha1(json.dumps(sc, sort_keys=True).encode()).digest()
        if nt.get(prop) and key not in res['distinct']:
            res['distinct'].add(key)
            res['nontrivial'] += 1
        if len(res['samples']) < 2 and nt.get(prop):
            res['samples'].append(sc)
        d = common.first_diff(flat, model_out[j])
        if d is not None:
            res['mismatches'].append(dict(name=name, family=famname, scenario=sc, pos=d,
                                          impl=flat[max(0, d - 8):d + 4], model=model_out[j][max(0, d - 8):d + 4],
                                          where=fam.locate(sc, flat, d) if hasattr(fam, 'locate') else None))
        for v in mon.get(prop, []):
            res['violations'].append(dict(name=name, scenario=sc, **v))
    for i, r in enumerate(results):
        if r[0] == 'skip':
            res['skipped'] += 1
        elif r[0] == 'crash':
            res['evaluations'] += 1
            res['mismatches'].append(dict(name=scs[i][0], family=famname, scenario=scs[i][1], pos=-1, crash=r[1], tb=r[2]))


# --------------------------------------------------------------------------- findings / replay
def load_known():
    p = os.path.join(VERIF, 'known_findings.json')
    if not os.path.exists(p):
        return []
    with open(p) as f:
        return json.load(f).get('findings', [])


def write_replay(prop, kind, payload):
    d = os.path.join(WORK, 'replays')
    os.makedirs(d, exist_ok=True)
    path = os.path.join(d, '%s-%s-%d.json' % (prop, kind, int(time.time() * 1000) % 100000000))
    with open(path, 'w') as f:
        json.dump(dict(property=prop, kind=kind, **payload), f, indent=1, default=str)
    return path


def shrink(famname, prop, sc, sig):
    """Greedy shrinking of a scenario keeping a monitor violation with the same signature."""
    fam = fam_module(famname)
    if not hasattr(fam, 'shrink_candidates'):
        return sc

    def bad(s):
        try:
            flat, obs = fam.run_impl(s)
            return any(v['sig'] == sig for v in fam.MONITORS[prop](s, obs))
        except Exception:
            return False
    cur = sc
    for _ in range(200):
        for cand in fam.shrink_candidates(cur):
            if bad(cand):
                cur = cand
                break
        else:
            break
    return cur


def do_replay(prop, path):
    with open(path) as f:
        d = json.load(f)
    if 'scenario' not in d:
        print('replay names a broken obligation, not an input:')
        print(json.dumps(d, indent=1)[:3000])
        return 1
    famname = d['family']
    fam = fam_module(famname)
    sc = d['scenario']
    try:
        flat, obs = fam.run_impl(sc)
    except Exception as e:
        print('implementation raised %s: %s' % (type(e).__name__, e))
        return 1
    mo = common.run_model(fam.FAMILY, [fam.encode(sc)])[0]
    dpos = common.first_diff(flat, mo)
    print('correspondence:', 'agree' if dpos is None else 'first difference at %d impl=%s model=%s' % (
        dpos, flat[max(0, dpos - 8):dpos + 4], mo[max(0, dpos - 8):dpos + 4]))
    vs = fam.MONITORS[prop](sc, obs) if prop in fam.MONITORS else []
    for v in vs:
        print('violated:', v['sig'], '-', v['what'])
    return 1 if (vs or dpos is not None) else 0


# --------------------------------------------------------------------------- main
def main(argv):
    if argv and argv[0] == '--setup':
        return setup()
    if not argv or argv[0] not in PROPS:
        print('usage: check <%s> [--tier quick|thorough] [--replay FILE]' % '|'.join(sorted(PROPS)))
        return 2
    prop = argv[0]
    tier = os.environ.get('VERIF_TIER', 'quick')
    replay = None
    i = 1
    while i < len(argv):
        if argv[i] == '--tier':
            tier = argv[i + 1]
            i += 2
        elif argv[i] == '--replay':
            replay = argv[i + 1]
            i += 2
        else:
            i += 1
    seed = int(os.environ.get('VERIF_SEED', '0') or 0)
    cfg = PROPS[prop]
    t0 = time.time()
    log = []
    os.makedirs(WORK, exist_ok=True)
    # scratch home directories of the worker processes (the implementation exports its event trace to ~/Downloads): one root per check run
    import atexit, shutil
    home_root = os.path.join(WORK, 'home', str(os.getpid()))
    os.environ['VERIF_HOME_ROOT'] = home_root
    atexit.register(lambda: shutil.rmtree(home_root, ignore_errors=True))

    if replay:
        b = build_for(prop, cfg, log)
        if b['fatal']:
            print('FATAL: ' + b['fatal'])
            return 2
        return do_replay(prop, replay)

    b = build_for(prop, cfg, log)
    if b['fatal']:
        print('FATAL (the verification machinery itself does not build): ' + b['fatal'])
        return 2
    if tier == 'thorough' and b['proof_ok']:
        # independent re-check of the compiled theorems and everything they depend on, with the axiom list
        mod = 'SimVerif.' + cfg['vfile'][:-2].replace('/', '.')
        rc, out = sh(['coqchk', '-silent', '-o', '-Q', COQ, 'SimVerif', mod], timeout=3000)
        ax = re.search(r'\* Axioms:\s*(.*?)\n\s*\n', out, re.S)
        axioms = ax.group(1).strip() if ax else '?'
        b['coqchk'] = 'coqchk -o %s: exit %d, axioms: %s' % (mod, rc, axioms)
        log.append(b['coqchk'])
        if rc != 0 or axioms != '<none>':
            b['proof_ok'] = False
            b['broken'].append(dict(kind='proof', file=cfg['vfile'], statement='coqchk', message=out[-600:]))
    for l in log:
        print(l)
    for br in b['broken']:
        print('BROKEN %s: %s' % (br['kind'], json.dumps(br)[:800]))

    known = [k for k in load_known() if k['property'] == prop]
    fam_results = []
    with Pool(NPROC) as pool:
        for famname, nq, nt_, size_q, size_t in cfg['families']:
            n = nq if tier == 'quick' else nt_
            size = size_q if tier == 'quick' else size_t
            fam_results.append(run_family(famname, prop, n, size, seed, pool))
        mismatches = [m for r in fam_results for m in r['mismatches']]
        violations = [(r['family'], v) for r in fam_results for v in r['violations']]
        broken = bool(b['broken']) or bool(mismatches)
        if broken and not violations:
            # widened search for a concrete failing input on the implementation
            print('tie or proof broken: widening the search for a failing input ...')
            for famname, nq, nt_, size_q, size_t in cfg['families']:
                if tier == 'quick':
                    r2 = run_family(famname, prop, nq * 3, size_q, seed + 7919, pool, with_corpus=False)
                else:
                    r2 = run_family(famname, prop, max(nt_ // 4, nq * 3), size_t, seed + 7919, pool, with_corpus=False)
                violations += [(r2['family'], v) for v in r2['violations']]
                mismatches += r2['mismatches'][:3]
                if violations:
                    break

    # known findings
    new_viol = []
    reported_known = set()
    for famname, v in violations:
        k = [k for k in known if k['status'] == 'known' and k['signature'] == v['sig']]
        if k:
            if v['sig'] not in reported_known:
                reported_known.add(v['sig'])
                print('KNOWN-FINDING: property=%s %s' % (prop, k[0]['what']))
        else:
            new_viol.append((famname, v))

    rc = 0
    nviol = 0
    if new_viol:
        famname, v = new_viol[0]
        sc = shrink(famname, prop, v['scenario'], v['sig'])
        path = write_replay(prop, 'input', dict(family=famname, scenario=sc, violated=v['sig'], what=v['what'],
                                                found_in=v['name']))
        print('violated clause: %s - %s' % (v['sig'], v['what']))
        print('VIOLATION property=%s replay=%s' % (prop, path))
        rc, nviol = 1, len(new_viol)
    elif broken:
        what = dict(broken_obligations=b['broken'],
                    correspondence=[dict(family=m.get('family'), name=m['name'], pos=m['pos'], impl=m.get('impl'),
                                         model=m.get('model'), crash=m.get('crash'), where=m.get('where'),
                                         scenario=m['scenario']) for m in mismatches[:3]],
                    note='no concrete failing input was found by the monitors; the property is no longer shown to hold')
        path = write_replay(prop, 'obligation', what)
        if mismatches:
            m = mismatches[0]
            print('correspondence broken on %s: %s' % (m['name'], m.get('crash') or
                                                      ('pos %s impl=%s model=%s where=%s' % (m['pos'], m.get('impl'), m.get('model'), m.get('where')))))
        print('VIOLATION property=%s replay=%s no-failing-input-found' % (prop, path))
        rc, nviol = 1, 1

    write_evidence(prop, cfg, tier, seed, b, fam_results, time.time() - t0, nviol)
    if rc == 0:
        print('OK %s: %d obligations checked, %d scenarios agree, %.1fs' % (
            prop, b['obligations'], sum(r['evaluations'] for r in fam_results), time.time() - t0))
    return rc


def write_evidence(prop, cfg, tier, seed, b, fam_results, wall, nviol):
    os.makedirs(os.path.join(VERIF, 'evidence'), exist_ok=True)
    evals = sum(r['evaluations'] for r in fam_results)
    nontriv = sum(r['nontrivial'] for r in fam_results)
    stats = Counter()
    for r in fam_results:
        stats.update(r['stats'])
    samples = []
    for r in fam_results:
        samples += [dict(family=r['family'], scenario=s) for s in r['samples'][:1]]
    samples += [dict(theorem=t, assumptions=b['assumptions'].get(t, '?')) for t in b['theorems'][:40]]
    tb = [
        'Coq 8.16.1 kernel (coqc); vm_compute only in reflexivity proofs of finite table equalities and non-vacuity Examples; no native_compute',
        'Print Assumptions of every Theorem in %s: %s' % (cfg['vfile'], '; '.join(
            '%s: %s' % (t, ' '.join(a.split())[:120]) for t, a in b['assumptions'].items()) or 'not available (build broken)'),
        'tools/pyfacts.py (AST fact extractor) for the Tie/*.v equalities',
        'Extraction with ExtrOcamlBasic only; its directives: Extract Inductive bool => bool [true false]; option => option [Some None]; unit => unit ["()"]; '
        'list => list ["[]" "( :: )"]; prod => "( * )" [""]; sumbool => bool [true false]; sumor => option [Some None]; '
        'Extract Inlined Constant andb => "(&&)"; orb => "(||)"; no other Extract directive; Z, positive, nat stay extracted inductives; '
        'ocaml/driver.ml (int<->Z conversion, line I/O)',
        'harness: scenario generators, builders, snapshot encoders, random.random patch (harness/*.py)',
        'modelled rather than verified: all Python code; the theorems are about coq/Model/*.v, tied to /repo by Tie/*.v and the lock-step correspondence',
    ] + ([b['coqchk']] if b.get('coqchk') else []) + cfg.get('trusted_extra', [])
    ev = dict(
        property_id=prop, tier=tier, seed=seed, level='proof',
        coverage=dict(
            obligations=b['obligations'], discharged=b['discharged'],
            checker_cmd='make -C coq %s (coqc, full .vo build) + coqc work/assum/Assum_%s.v (Print Assumptions)' % (
                cfg['vfile'][:-2] + '.vo', prop),
            trusted_base=tb,
            theorems=b['theorems'],
            proof_files=b['files'],
            broken=b['broken'],
            evaluations=evals, distinct_nontrivial=nontriv,
            rule=cfg.get('rule', ''),
            traces_validated_against_impl=evals,
            integers_compared=sum(r['ints'] for r in fam_results),
            mismatches=sum(len(r['mismatches']) for r in fam_results),
            monitor_violations=sum(len(r['violations']) for r in fam_results),
            skipped=sum(r['skipped'] for r in fam_results),
            input_distribution=dict(sorted(stats.items())),
            samples=samples,
            explanation=cfg.get('explanation', ''),
        ),
        assumptions=cfg.get('assumptions', []),
        wall_s=round(wall, 2), violations=nviol)
    with open(os.path.join(VERIF, 'evidence', prop + '.json'), 'w') as f:
        json.dump(ev, f, indent=1, default=str)


def setup():
    log = []
    with Lock():
        rc, out = run_pyfacts()
        print(out)
        regen_project()
        rc, out = make(model_vos(), keep_going=False)
        if rc != 0:
            print(out[-3000:])
            return 1
        rc, out = build_simmodel(force=True)
        print(out)
        if rc != 0:
            return 1
        targets = [f[:-2] + '.vo' for f in v_files()]
        rc, out = make(targets)
        print(out[-3000:] if rc != 0 else 'coq: all %d files built' % len(targets))
        # a failing proof at setup time is reported by the individual checks; setup itself succeeded
    return 0
