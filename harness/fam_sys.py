"""Family F_sys: the real System / Asset registration, initialisation and look-up (C20).

Scenario = dict(ops=[...], twin=dict(kind, t, d, mode, p1, p2))
  op = ('new',) | ('asset', kind, name, transitory) | ('sim', idx, dur) | ('find', idx, name, id, type, subtype)
     | ('add', ordinal) | ('late', idx, kind, name)
The lock-step part compares the registry (per system: initialised flag and registered assets; per asset: number of
Asset.initialize calls and the environment it belongs to; find results) after every operation.
The twin part creates the same small model once before the first simulate() and once while the simulation is already
in progress (between runs or from inside an event) and records what it does, shifted by the creation time.
"""
import contextlib
import io
from collections import Counter
from . import common

FAMILY = 7
NAME = 'sys'
KINDS = 14


class Discard(Exception):
    pass


class TooLong(Discard):
    pass


def encode(sc):
    out = []
    for x in sc['ops']:
        k = x[0]
        if k == 'new':
            out += [1, 0, 0, 0, 0, 0, 0, 0]
        elif k == 'asset':
            out += [2, x[1], x[2], 1 if x[3] else 0, 0, 0, 0, 0]
        elif k == 'sim':
            out += [3, x[1], 0, 0, 0, 0, 0, 0]
        elif k == 'find':
            out += [4, x[1], x[2], x[3], x[4], x[5], 0, 0]
        elif k == 'add':
            out += [5, x[1], 0, 0, 0, 0, 0, 0]
        elif k == 'late':
            out += [6, x[1], x[2], x[3], 0, 0, 0, 0]
    return out


REG_KINDS = [0, 1, 2, 3, 4, 5, 6, 7, 8, 9, 10, 11]


def gen(rng, size='small'):
    ops = []
    nsys, nassets = 0, 0
    n = rng.randint(4, 14) if size == 'small' else rng.randint(10, 40)
    if rng.random() < 0.9:
        ops.append(('new',))
        nsys = 1
    for _ in range(n):
        r = rng.random()
        if r < 0.10:
            # a third of the later systems are created by System.simulate_multiple_times(f, 1, 0) with an f that does nothing: the calling
            # process itself constructs the System, which is the most recently created one from then on, exactly as after System()
            ops.append(('new', 1) if rng.random() < 0.35 else ('new',))
            nsys += 1
        elif r < 0.50:
            tr = rng.random() < 0.1
            ops.append(('asset', 13 if tr else rng.choice(REG_KINDS), rng.choice([-1, -1, 0, 1, 2]), tr))
            nassets += 1
        elif r < 0.68:
            ops.append(('sim', rng.randint(0, max(nsys - 1, 0)) if rng.random() < 0.8 else max(nsys - 1, 0), rng.choice([0, 8, 16])))
        elif r < 0.78 and nsys:
            ops.append(('late', max(nsys - 1, 0) if rng.random() < 0.8 else rng.randint(0, nsys - 1), rng.choice(REG_KINDS), rng.choice([-1, 0, 1])))
            nassets += 1
        elif r < 0.84 and nassets:
            ops.append(('add', rng.randint(0, nassets - 1)))
        elif nsys:
            ops.append(('find', rng.randint(0, nsys - 1), rng.choice([-1, -1, 0, 1, 2]), rng.choice([-1, -1, -1] + list(range(max(nassets, 1)))),
                        rng.choice([-1, -1] + REG_KINDS), rng.choice([-1, -1, 0, 1, 2, 14, 3, 5])))
    twin = dict(kind=rng.choice(['line', 'line', 'maint', 'sched', 'sensor', 'buffer', 'spawn']), t=rng.choice([0, 4, 8, 20, 24]), d=rng.choice([24, 40, 64]),
                mode=rng.choice(['between', 'event']), p1=rng.choice([0, 4, 8, 12]), p2=rng.choice([4, 8, 16]))
    return dict(ops=ops, twin=twin)


def _classes():
    from simprocesd.model.factory_floor import (Asset, PartFlowController, PartHandler, PartProcessor, Buffer, Source, Sink,
                                                DecisionGate, PartBatcher, Maintainer, ActionScheduler, Part)
    from simprocesd.model.sensors import PeriodicSensor, Sensor, Probe
    from simprocesd.model.cms import Cms
    return {0: Asset, 1: PartFlowController, 2: PartHandler, 3: PartProcessor, 4: Buffer, 5: Source, 6: Sink, 7: DecisionGate,
            8: PartBatcher, 9: Maintainer, 10: ActionScheduler, 11: PeriodicSensor, 12: Cms, 13: Part, 14: Sensor}, Probe


def _make(classes, Probe, kind, name):
    nm = None if name == -1 else 'n%d' % name
    c = classes[kind]
    if kind == 10:
        return c([(1, 'a'), (2, 'b')], name=nm)
    if kind == 11:
        return c(1, [Probe(lambda target: 1, None)], name=nm)
    if kind == 13:
        return c(name=nm)
    if kind == 5:
        return c(name=nm, cycle_time=1)
    return c(name=nm)


def _status(e):
    if isinstance(e, RuntimeError):
        return 5
    if isinstance(e, AssertionError):
        return 6
    if isinstance(e, AttributeError):
        return 8
    return 9


def _nothing(system, index):
    pass


def run_impl(sc):
    from simprocesd.model import System
    from simprocesd.model.factory_floor import Asset
    classes, Probe = _classes()
    kind_of = {v: k for k, v in classes.items()}
    flat, obs = [], []
    counts = {}
    orig_init = Asset.initialize

    def counting_init(self, env):
        r = orig_init(self, env)      # an AssertionError (already initialised) is not an initialisation
        counts[id(self)] = counts.get(id(self), 0) + 1
        return r
    Asset.initialize = counting_init
    saved_instance = System._instance
    System._instance = None
    try:
        systems, assets = [], []

        def ordinal(a):
            for i, x in enumerate(assets):
                if x is a:
                    return i
            return None

        for x in sc['ops']:
            st, found = 0, []
            try:
                with contextlib.redirect_stdout(io.StringIO()):
                    k = x[0]
                    if k == 'new':
                        if len(x) > 1:
                            systems.extend(System.simulate_multiple_times(_nothing, 1, 0))
                        else:
                            systems.append(System())
                    elif k == 'asset':
                        assets.append(_make(classes, Probe, x[1], x[2]))
                    elif k == 'sim':
                        if x[1] >= len(systems):
                            raise Discard('no such system')
                        systems[x[1]].simulate(x[2] / common.TICK, print_summary=False)
                    elif k == 'late':
                        if x[1] >= len(systems):
                            raise Discard('no such system')
                        s = systems[x[1]]
                        box = {}

                        def create(x=x, box=box):
                            try:
                                box['a'] = _make(classes, Probe, x[2], x[3])
                            except Exception as e:    # noqa: BLE001  (reported as the operation's status)
                                box['e'] = e
                        s.env.schedule_event(s.env.now + 1, -1, create)
                        s.simulate(2, print_summary=False)
                        if 'e' in box:
                            raise box['e']
                        if 'a' not in box:
                            raise Discard('creation event did not run')
                        assets.append(box['a'])
                    elif k == 'add':
                        if x[1] >= len(assets):
                            raise Discard('no such asset')
                        System.add_asset(assets[x[1]])
                    elif k == 'find':
                        if x[1] >= len(systems):
                            raise Discard('no such system')
                        if x[3] != -1 and x[3] >= len(assets):
                            raise Discard('no such asset')
                        kw = {}
                        if x[2] != -1:
                            kw['name'] = 'n%d' % x[2]
                        if x[3] != -1:
                            kw['id_'] = int(str(assets[x[3]].id))     # an equal id, not the very same int object
                        if x[4] != -1:
                            kw['type_'] = classes[x[4]]
                        if x[5] != -1:
                            kw['subtype'] = classes[x[5]]
                        res = systems[x[1]].find_assets(**kw)
                        found = [ordinal(a) for a in res]
                        if None in found:
                            raise Discard('found an asset the scenario did not create')
            except Discard:
                raise
            except Exception as e:    # noqa: BLE001
                st = _status(e)
            out = [-777, st, len(systems), -1 if System._instance is None else [i for i, s in enumerate(systems) if s is System._instance][0]]
            sysobs = []
            for s in systems:
                ords = [ordinal(a) for a in s._assets]
                if None in ords:
                    # an object whose constructor raised after registering: not an asset the caller ever got
                    out = None
                    break
                out += [1 if s._simulation_is_initialized else 0, len(ords)] + ords
                sysobs.append(dict(inited=s._simulation_is_initialized, assets=ords))
            if out is None:
                flat += [-777, 8, -1]
                obs.append(dict(op=x, st=8, broken='a partially constructed object is registered'))
                break
            out.append(len(assets))
            aobs = []
            for a in assets:
                envi = -1
                if a._env is not None:
                    envi = [i for i, s in enumerate(systems) if s._env is a._env][0]
                out += [kind_of[type(a)], counts.get(id(a), 0), envi]
                aobs.append(dict(kind=kind_of[type(a)], inits=counts.get(id(a), 0), env=envi))
            out += [len(found)] + found
            flat += out
            obs.append(dict(op=x, st=st, systems=sysobs, assets=aobs, found=found, active=out[3]))
        if obs and 'broken' not in obs[-1]:
            obs[-1]['twin'] = run_twin(sc['twin'])
    finally:
        Asset.initialize = orig_init
        System._instance = saved_instance
    return flat, obs


# ------------------------------------------------------------------------------------------ twins
def _build(kind, p1, p2, log, now):
    """Create a small model of the given kind under the active system; returns a function that reads its observable outcome."""
    from simprocesd.model.factory_floor import Source, Sink, PartProcessor, Buffer, Maintainer, ActionScheduler
    from simprocesd.model.sensors import PeriodicSensor, AttributeProbe
    T = common.TICK
    if kind in ('line', 'buffer'):
        src = Source('src', cycle_time=p2 / T)
        mid = PartProcessor('m', upstream=[src], cycle_time=p1 / T) if kind == 'line' else Buffer('m', upstream=[src], minimum_delay=p1 / T, capacity=3)
        snk = Sink('snk', upstream=[mid], cycle_time=(p1 + p2) / T if kind == 'buffer' else 0)
        if kind == 'line':
            mid.add_finish_processing_callback(lambda d, p: log.append(('fin', common.to_ticks(d.env.now))))
        snk.add_receive_part_callback(lambda d, p: log.append(('rcv', common.to_ticks(d.env.now))))

        def read():
            r = dict(received=snk.received_parts_count, produced=src.produced_parts)
            if kind == 'line':
                r['uptime'] = common.to_ticks(mid.uptime)
                r['util'] = common.to_ticks(mid.utilization_time)
            else:
                r['level'] = mid.level()
            return r
        return read
    if kind == 'maint':
        mt = Maintainer('mt', capacity=1)

        class M(PartProcessor):
            def get_work_order_duration(self, tag):
                return p2 / T
        m = M('m', cycle_time=1)
        m.add_shutdown_callback(lambda d, f, p: log.append(('down', common.to_ticks(d.env.now))))
        m.add_restored_callback(lambda d: log.append(('up', common.to_ticks(d.env.now))))
        holder = dict(mt=mt, m=m)

        def order():
            log.append(('wo', holder['mt'].create_work_order(holder['m'], 'x')))
        holder['order'] = order

        def read():
            return dict(uptime=common.to_ticks(m.uptime), env=mt.env is not None, cap=mt.available_capacity)
        read.holder = holder
        return read
    if kind == 'sched':
        # the state timeline is read from the schedule_update records (an object can only be registered after the
        # scheduler exists, i.e. after a late-created scheduler has already made its first change)
        s = ActionScheduler([(p2 / T, 'a'), ((p1 + 4) / T, 'b')], 'as')

        def read():
            recs = s.env.simulation_data.get('schedule_update', {}).get('as', [])
            return dict(state=s.current_state, timeline=[(common.to_ticks(r[0]) - now, r[1]) for r in recs])
        return read
    if kind == 'sensor':
        src = Source('src', cycle_time=p2 / T)
        snk = Sink('snk', upstream=[src])
        sen = PeriodicSensor((p1 + 4) / T, [AttributeProbe('received_parts_count', snk)], 'sen', data_capacity=5)
        sen.add_on_sense_callback(lambda s, d: log.append(('sense', common.to_ticks(s.env.now), list(d))))

        def read():
            return dict(n=len(sen.data['time']), last=list(sen.last_sense or []))
        return read
    if kind == 'spawn':
        # an asset whose initialize() brings in further assets (a source and its sink): registered while the System is in the
        # middle of initialising its assets (early) or initialised on the spot (late)
        from simprocesd.model.factory_floor import Asset
        made = {}

        class Spawner(Asset):
            def initialize(self, env):
                super().initialize(env)
                src = Source('csrc', cycle_time=p2 / T)
                snk = Sink('csnk', upstream=[src])
                snk.add_receive_part_callback(lambda d, p: log.append(('rcv', common.to_ticks(d.env.now))))
                made['src'], made['snk'] = src, snk
        Spawner('spawner')

        def read():
            if 'snk' not in made:
                return dict(spawned=False)
            return dict(spawned=True, received=made['snk'].received_parts_count, produced=made['src'].produced_parts,
                        child_env=made['src'].env is not None and made['snk'].env is not None)
        return read
    raise Discard('unknown twin kind')


def run_twin(tw):
    from simprocesd.model import System
    T = common.TICK
    res = {}
    for which in ('early', 'late'):
        log = []
        err = None
        try:
            with contextlib.redirect_stdout(io.StringIO()):
                system = System()
                t = tw['t'] if which == 'late' else 0
                box = {}
                if which == 'early':
                    box['read'] = _build(tw['kind'], tw['p1'], tw['p2'], log, 0)
                elif tw['mode'] == 'between':
                    system.simulate(t / T, print_summary=False)
                    box['read'] = _build(tw['kind'], tw['p1'], tw['p2'], log, t)
                else:
                    def create():
                        box['read'] = _build(tw['kind'], tw['p1'], tw['p2'], log, t)
                    system.env.schedule_event(t / T, -1, create, 100)
                    system.simulate(t / T, print_summary=False)
                    if 'read' not in box:
                        raise Discard('creation event did not run')
                if tw['kind'] == 'maint':
                    system.env.schedule_event((t + 8) / T, -1, box['read'].holder['order'])
                system.simulate((t + tw['d']) / T - system.env.now, print_summary=False)
                out = box['read']()
        except Discard:
            raise
        except Exception as e:    # noqa: BLE001
            err = '%s: %s' % (type(e).__name__, str(e)[:120])
            out = None
            t = tw['t'] if which == 'late' else 0
        shifted = [tuple([r[0]] + [(x - t if i == 0 and isinstance(x, int) and not isinstance(x, bool) else x) for i, x in enumerate(r[1:])]) for r in log]
        res[which] = dict(err=err, out=out, log=shifted, t=t)
    return res


def monitor_c20(sc, obs):
    v = []

    def bad(sig, what):
        v.append(dict(sig=sig, what=what))
    if not obs:
        return v
    if 'broken' in obs[-1]:
        bad('C20/partial-object-registered', 'op %s: an exception escaped a constructor after the object had registered with the system' % (obs[-1]['op'],))
        return v
    # registration / initialisation rules, written from the property text
    prev_assets, prev_systems = [], []
    for i, o in enumerate(obs):
        x = o['op']
        if o['st'] == 8:
            bad('C20/late-creation-fails', 'op %d %s: creating the asset raised AttributeError' % (i, x))
        for j, a in enumerate(o['assets']):
            if a['inits'] > 1:
                bad('C20/initialised-twice', 'op %d: asset #%d was initialised %d times' % (i, j, a['inits']))
            if j < len(prev_assets) and prev_assets[j]['inits'] == 1 and a['inits'] != 1 and o['st'] == 0:
                bad('C20/re-initialised', 'op %d: asset #%d initialisation count changed from 1 to %d' % (i, j, a['inits']))
        if x[0] in ('asset', 'late') and o['st'] == 0 and not (x[0] == 'asset' and x[3]):
            j = len(o['assets']) - 1
            act = o['active']
            holders = [k for k, s in enumerate(o['systems']) if j in s['assets']]
            if holders != [act]:
                bad('C20/registered-elsewhere', 'op %d: new asset #%d is registered with systems %s, the most recently created one is %d' % (i, j, holders, act))
            if act is not None and act >= 0 and o['systems'][act]['inited'] and o['assets'][j]['inits'] != 1:
                bad('C20/late-not-initialised', 'op %d: asset #%d created while system %d is running was initialised %d times' % (i, j, act, o['assets'][j]['inits']))
            if act is not None and act >= 0 and o['systems'][act]['inited'] and o['assets'][j]['env'] != act:
                bad('C20/late-wrong-env', 'op %d: asset #%d created while system %d is running has environment %s' % (i, j, act, o['assets'][j]['env']))
        if x[0] == 'asset' and x[3] and o['st'] == 0:
            j = len(o['assets']) - 1
            if any(j in s['assets'] for s in o['systems']):
                bad('C20/transitory-registered', 'op %d: transitory asset #%d was registered' % (i, j))
        if x[0] in ('sim', 'late'):
            if x[1] != (prev_systems and obs[i - 1]['active']) and o['st'] == 0 and i > 0 and x[1] != obs[i - 1]['active']:
                bad('C20/inactive-simulated', 'op %d: system %d simulated although system %s is the active one' % (i, x[1], obs[i - 1]['active']))
            if o['st'] == 0:
                s = o['systems'][x[1]]
                for j in s['assets']:
                    if o['assets'][j]['inits'] != 1:
                        bad('C20/not-initialised-once', 'op %d: after simulate, asset #%d of system %d has been initialised %d times' % (i, j, x[1], o['assets'][j]['inits']))
        if x[0] == 'find' and o['st'] == 0:
            s = o['systems'][x[1]]
            exp = []
            for j in s['assets']:
                a = o['assets'][j]
                nm = [y for y in obs[:i + 1] if y['op'][0] in ('asset', 'late')]
                ok = True
                if x[3] != -1 and x[3] != j:
                    ok = False
                if x[4] != -1 and a['kind'] != x[4]:
                    ok = False
                if x[5] != -1 and not _isinstance(a['kind'], x[5]):
                    ok = False
                if x[2] != -1 and _name_of(sc, obs, j) != x[2]:
                    ok = False
                if ok:
                    exp.append(j)
            if exp != o['found']:
                bad('C20/find', 'op %d %s: find_assets returned %s, the registered assets matching all filters are %s' % (i, x, o['found'], exp))
        prev_assets, prev_systems = o['assets'], o['systems']
    tw = obs[-1].get('twin')
    if tw:
        e, l = tw['early'], tw['late']
        if l['err'] and not e['err']:
            bad('C20/late-twin-error', 'a %s model created at time %d (%s) raised %s; created before the start it runs' % (sc['twin']['kind'], sc['twin']['t'], sc['twin']['mode'], l['err']))
        elif not l['err'] and not e['err']:
            for which, r in (('before the start', e), ('while the simulation is running', l)):
                if sc['twin']['kind'] == 'spawn' and r['out'] and not (r['out'].get('spawned') and r['out'].get('child_env')):
                    bad('C20/spawned-not-initialised', 'assets created from inside another asset\'s initialize() (%s) were never initialised: %s' % (which, r['out']))
            if e['out'] != l['out']:
                bad('C20/late-twin-outcome', 'a %s model created at time %d (%s) ends with %s; created before the start (same duration) with %s' % (sc['twin']['kind'], sc['twin']['t'], sc['twin']['mode'], l['out'], e['out']))
            elif e['log'] != l['log']:
                k = next((j for j in range(min(len(e['log']), len(l['log']))) if e['log'][j] != l['log'][j]), min(len(e['log']), len(l['log'])))
                bad('C20/late-twin-behaviour', 'a %s model created at time %d (%s): behaviour differs from its twin created before the start at observation %d: %s vs %s' % (
                    sc['twin']['kind'], sc['twin']['t'], sc['twin']['mode'], k, l['log'][k:k + 2], e['log'][k:k + 2]))
    return v


PARENT = {1: 0, 2: 1, 3: 2, 4: 2, 5: 2, 6: 2, 8: 2, 7: 1, 9: 0, 10: 0, 12: 0, 13: 0, 14: 0, 11: 14}


def _isinstance(k, anc):
    while True:
        if k == anc:
            return True
        if k not in PARENT:
            return False
        k = PARENT[k]


def _name_of(sc, obs, j):
    created = [y['op'] for y in obs if y['op'][0] in ('asset', 'late') and y['st'] == 0]
    if j >= len(created):
        return None
    x = created[j]
    nm = x[2] if x[0] == 'asset' else x[3]
    return nm if nm != -1 else None


def monitor_c13(sc, obs):
    """C13 on processors created while the simulation is running: uptime and utilisation count from the creation, exactly as for
    the twin created before the start and run for the same duration."""
    v = []
    tw = obs[-1].get('twin') if obs else None
    if tw and sc['twin']['kind'] == 'line':
        e, l = tw['early'], tw['late']
        if not e['err'] and not l['err'] and e['out'] and l['out']:
            for k, what in (('uptime', 'uptime'), ('util', 'utilisation time')):
                if e['out'].get(k) != l['out'].get(k):
                    v.append(dict(sig='C13/late-' + k, what='a processor created at time %d (%s) reports %s %s/8 after running as long as its twin created before the start, which reports %s/8' % (
                        sc['twin']['t'], sc['twin']['mode'], what, l['out'].get(k), e['out'].get(k))))
    return v


MONITORS = {'C20': monitor_c20, 'C13': monitor_c13}


def stats(sc, obs):
    c = Counter()
    for o in obs:
        c['op:' + o['op'][0]] += 1
        if o['st']:
            c['status:%d' % o['st']] += 1
    c['scenarios'] += 1
    c['twin:%s/%s' % (sc['twin']['kind'], sc['twin']['mode'])] += 1
    return c


def nontrivial(prop, sc, obs):
    if not obs:
        return False
    late = any(o['op'][0] == 'late' and o['st'] == 0 for o in obs) or \
        any(o['op'][0] == 'asset' and o['st'] == 0 and o['active'] is not None and o['active'] >= 0 and o['systems'][o['active']]['inited'] for o in obs)
    return late and sum(1 for o in obs if o['op'][0] == 'sim' and o['st'] == 0) >= 1


def shrink_candidates(sc):
    ops = sc['ops']
    for i in range(len(ops) - 1, -1, -1):
        yield dict(sc, ops=ops[:i] + ops[i + 1:])


def locate(sc, flat, pos):
    n = flat[:pos + 1].count(-777) - 1
    return 'op #%d %s' % (n, sc['ops'][n] if 0 <= n < len(sc['ops']) else '?')
