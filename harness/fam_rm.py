"""Family F_rm: ResourceManager + Environment with scripted callbacks and external calls.

Scenario = dict(seed, mod, ext=[xop...], cbs=[[rop...]...], deferred=[[rop...]...])
  rop = ('add', n, a) | ('reserve', slot, req) | ('reserve_arg', slot) | ('release_all', slot)
      | ('release', slot, req) | ('merge', s1, s2) | ('register', cb, req)
  xop = rop | ('init',) | ('step',) | ('run', d) | ('defer', t, k)
  req = [[name, amount], ...] (insertion order, at most 3 entries); amounts and times in 1/8 units.
"""
import contextlib
import io
from collections import Counter
from . import common
from .common import TICK, PRIO, to_ticks

FAMILY = 2
NAME = 'rm'
STEP_LIMIT = 1500


class Discard(Exception):
    pass


class TooLong(Discard):
    pass


def rname(n):
    return 'r%d' % n


def enc_req6(r):
    out = []
    for n, a in r[:3]:
        out += [n, a]
    while len(out) < 6:
        out += [-1, 0]
    return out


def enc_rop(o):
    k = o[0]
    if k == 'add':
        return [20, o[1], o[2], 0, 0, 0, 0, 0]
    if k == 'reserve':
        return [21, o[1]] + enc_req6(o[2])
    if k == 'release_all':
        return [22, o[1], 0, 0, 0, 0, 0, 0]
    if k == 'release':
        return [23, o[1]] + enc_req6(o[2])
    if k == 'merge':
        return [24, o[1], o[2], 0, 0, 0, 0, 0]
    if k == 'register':
        return [25, o[1]] + enc_req6(o[2])
    if k == 'reserve_arg':
        return [26, o[1], 0, 0, 0, 0, 0, 0]
    raise ValueError(o)


def encode(sc):
    out = [0, sc['seed'], sc['mod'], 0, 0, 0, 0, 0]
    for k, body in enumerate(sc['cbs']):
        out += [29, 1, k, 0, 0, 0, 0, 0]
        for o in body:
            out += enc_rop(o)
    for k, body in enumerate(sc['deferred']):
        out += [29, 2, k, 0, 0, 0, 0, 0]
        for o in body:
            out += enc_rop(o)
    out += [29, 0, 0, 0, 0, 0, 0, 0]
    for x in sc['ext']:
        if x[0] == 'init':
            out += [16, 0, 0, 0, 0, 0, 0, 0]
        elif x[0] == 'step':
            out += [14, 0, 0, 0, 0, 0, 0, 0]
        elif x[0] == 'run':
            out += [15, x[1], 0, 0, 0, 0, 0, 0]
        elif x[0] == 'defer':
            out += [17, x[1], x[2], 0, 0, 0, 0, 0]
        else:
            out += enc_rop(x)
    return out


# ------------------------------------------------------------------ generator
def gen(rng, size='small'):
    nres = rng.choice([1, 2, 2, 3])
    names = list(range(nres))
    unit = rng.choice([8, 8, 4])
    # a sixth of the scenarios are full of reservations that hold nothing (empty / all-zero requests) and of merges, so that
    # several empty reservation objects coexist and are merged into, released and observed afterwards
    zeroish = rng.random() < 0.17

    def amount(allow_bad=True):
        r = rng.random()
        if allow_bad and r < 0.04:
            return -unit * rng.randint(1, 2)
        if r < (0.5 if zeroish else 0.12):
            return 0
        return unit * rng.choice([1, 1, 1, 2, 2, 3])

    def a_name(allow_unknown=True):
        if allow_unknown and rng.random() < 0.05:
            return 9
        return rng.choice(names)

    def a_req(allow_bad=True):
        k = rng.choice([1, 1, 2, 2, 3])
        ns = []
        for _ in range(k):
            n = a_name(allow_bad)
            if n not in ns:
                ns.append(n)
        return [[n, amount(allow_bad)] for n in ns]

    def a_rop(in_cb=False, depth=0):
        r = rng.random()
        if in_cb and r < 0.55:
            return ('reserve_arg', rng.randint(0, 3))
        if r < 0.12:
            a = unit * rng.choice([1, 1, 2, -1, -1, -2, -4])
            return ('add', a_name(), a)
        if r < 0.40:
            return ('reserve', rng.randint(0, 3), a_req() if rng.random() < (0.8 if zeroish else 0.97) else [])
        if r < 0.55:
            return ('release_all', rng.randint(0, 3))
        if r < 0.72:
            req = a_req()
            if rng.random() < 0.7:
                req = [[n, abs(a) if a else unit] for n, a in req]
            if rng.random() < 0.08:
                req = []          # release({}): a partial release of nothing
            return ('release', rng.randint(0, 3), req)
        if r < 0.78 or (zeroish and r < 0.9):
            a = rng.randint(0, 3)
            b = rng.choice([x for x in range(4) if x != a])
            return ('merge', a, b)
        return ('register', rng.randrange(ncb), a_req(allow_bad=rng.random() < 0.15))

    ncb = rng.randint(1, 4)
    cbs = []
    for k in range(ncb):
        body = []
        for _ in range(rng.choice([0, 1, 1, 1, 2, 2])):
            o = a_rop(in_cb=True)
            if o[0] == 'register' and rng.random() < 0.6:
                continue
            body.append(o)
        cbs.append(body)
    ndef = rng.randint(0, 3)
    deferred = [[a_rop() for _ in range(rng.randint(1, 3))] for _ in range(ndef)]

    ext = []
    for n in names:
        if rng.random() < 0.85:
            ext.append(('add', n, unit * rng.choice([0, 1, 2, 2, 3, 4])))
    ext.append(('init',))
    n_ops = rng.randint(5, 16) if size == 'small' else rng.randint(15, 60)
    est = 0
    for _ in range(n_ops):
        r = rng.random()
        if r < 0.70:
            ext.append(a_rop())
        elif r < 0.85:
            ext.append(('step',))
        elif r < 0.93 and ndef:
            ext.append(('defer', est + rng.choice([0, 0, 4, 8, 16]), rng.randrange(ndef)))
        else:
            d = rng.choice([0, 4, 8, 16])
            ext.append(('run', d))
            est += d
    return dict(seed=rng.randint(0, 1000), mod=rng.choice([1, 3, 1 << 20]), ext=ext, cbs=cbs, deferred=deferred)


# ------------------------------------------------------------------ implementation runner
def req_dict(r):
    return {rname(n): a / TICK for n, a in r}


def req_list(d):
    return [[int(k[1:]), to_ticks(v)] for k, v in d.items()]


def run_impl(sc):
    from simprocesd.model.simulation import Environment, EventType
    from simprocesd.model.resource_manager import ResourceManager
    flat, obs = [], []
    with common.WeightPatch(sc['seed'], sc['mod']):
        rm = ResourceManager()
        env = Environment(resource_manager=rm)
        slots, objs, cblog, datalog, checks = {}, [], [], [], []
        steps = [0]
        orig_step = env.step

        def counted_step():
            steps[0] += 1
            if steps[0] > STEP_LIMIT:
                raise TooLong()
            orig_step()
        env.step = counted_step
        orig_add = env.add_datapoint

        def add_datapoint(label, sub, dp):
            datalog.append((label, sub, dp))
            orig_add(label, sub, dp)
        env.add_datapoint = add_datapoint

        def pools_now():
            return [[int(k[1:]), to_ticks(u), to_ticks(c)] for k, (u, c) in rm._resources.items()]

        reg_ids = {}

        def do_rop(o, arg=None):
            k = o[0]
            if k == 'add':
                rm.add_resources(rname(o[1]), o[2] / TICK)
            elif k in ('reserve', 'reserve_arg'):
                request = req_dict(o[2]) if k == 'reserve' else arg
                r = rm.reserve_resources(request)
                slots[o[1]] = r
                if r is not None:
                    objs.append(r)
                    r.reserved_resources.clear()      # what the getter hands out is the caller's to keep: the reservation is not touched
            elif k == 'release_all':
                if slots.get(o[1]) is not None:
                    slots[o[1]].release()
            elif k == 'release':
                if slots.get(o[1]) is not None:
                    slots[o[1]].release(req_dict(o[2]))
                    slots[o[1]].reserved_resources.clear()
            elif k == 'merge':
                a, b = slots.get(o[1]), slots.get(o[2])
                if a is not None and b is not None:
                    a.merge(b)
            elif k == 'register':
                original = req_dict(o[2])
                n_before = len(rm._waiting_requests)
                rm.reserve_resources_with_callback(original, callbacks[o[1]])
                stored = rm._waiting_requests[-1][0]
                reg_ids[id(stored)] = dict(reg=len(reg_ids), cb=o[1], original_id=id(original), time=to_ticks(env.now),
                                           req=req_list(stored), keep=(stored, original))

        def make_cb(k):
            def cb(manager, request):
                if len(cblog) > 200:
                    raise TooLong()
                info = reg_ids.get(id(request))
                cblog.append(dict(cb=k, req=req_list(request), time=to_ticks(env.now), reg=info['reg'] if info else None,
                                  manager_ok=manager is rm, is_copy=info is not None and id(request) != info['original_id'],
                                  pools=pools_now(), check=len(checks) - 1))
                for o in sc['cbs'][k]:
                    do_rop(o, request)
            cb._verif_cb = k
            return cb
        callbacks = [make_cb(k) for k in range(len(sc['cbs']))]

        orig_check = rm._check_pending_requests

        def check_wrapper():
            checks.append(dict(time=to_ticks(env.now), waiting=[reg_ids[id(w[0])]['reg'] for w in rm._waiting_requests
                                                               if id(w[0]) in reg_ids]))
            orig_check()
        check_wrapper.__name__ = '_check_pending_requests'
        rm._check_pending_requests = check_wrapper

        def make_deferred(k):
            def action():
                for o in sc['deferred'][k]:
                    do_rop(o)
            action._verif_act = 1 + k
            return action
        deferred = [make_deferred(k) for k in range(len(sc['deferred']))]

        def act_code(ev):
            if hasattr(ev.action, '_verif_act'):
                return ev.action._verif_act
            nm = getattr(ev.action, '__name__', '')
            if nm == '_check_pending_requests':
                return 0
            if nm == '_terminate':
                return -1
            return -99

        ndata = 0
        try:
          for x in sc['ext']:
              st = 0
              sink = io.StringIO()
              try:
                  with contextlib.redirect_stdout(sink):
                      k = x[0]
                      if k == 'init':
                          rm.initialize(env)
                      elif k == 'step':
                          env.step()
                      elif k == 'run':
                          env.run(x[1] / TICK)
                      elif k == 'defer':
                          env.schedule_event(x[1] / TICK, 7, deferred[x[2]], EventType.OTHER_LOW_PRIORITY)
                      else:
                          do_rop(x)
              except ValueError:
                  st = 1
              except IndexError:
                  st = 2
              except KeyError:
                  st = 4
              pools = pools_now()
              waiting = [[w[1]._verif_cb, req_list(w[0])] for w in rm._waiting_requests]
              held = [req_list(o._reserved_resources) for o in objs]
              out = [-777, st, len(pools)]
              for p in pools:
                  out += p
              out.append(len(waiting))
              for cb, r in waiting:
                  out += [cb, len(r)] + [v for na in r for v in na]
              out.append(len(held))
              for r in held:
                  out += [len(r)] + [v for na in r for v in na]
              out.append(len(cblog))
              for c in cblog:
                  out += [c['cb'], c['time'], len(c['req'])] + [v for na in c['req'] for v in na]
              q = [[ev._verif_eid, to_ticks(ev.time), to_ticks(ev.event_type, PRIO), int(round(ev.random_weight * common.WDEN)),
                    ev.asset_id, act_code(ev)] for ev in env._events]
              out += [to_ticks(env.now), 1 if env._terminated else 0, len(q)]
              for e in q:
                  out += e
              new = datalog[ndata:]
              ndata = len(datalog)
              out.append(len(new))
              for label, sub, dp in new:
                  if label != 'resource_update':
                      raise Discard('unexpected datapoint label ' + str(label))
                  out += [1, int(sub[1:]), len(dp)] + [to_ticks(v) for v in dp]
              flat += out
              obs.append(dict(op=x, st=st, now=to_ticks(env.now), pools=pools, waiting=[[reg_ids[id(w[0])]['reg'], req_list(w[0])]
                                                                                       for w in rm._waiting_requests if id(w[0]) in reg_ids],
                              held=held, queue=q, cblog=[dict(c) for c in cblog], checks=[dict(c) for c in checks],
                              data=[(label, sub, [to_ticks(v) for v in dp]) for label, sub, dp in new],
                              slots={k: (objs.index(v) if v is not None else None) for k, v in slots.items()},
                              nregs=len(reg_ids)))
        finally:
            for o in objs:
                o._reserved_resources = {}
    return flat, obs


# ------------------------------------------------------------------ monitors
def _fits(pools, req):
    pd = {p[0]: (p[1], p[2]) for p in pools}
    for n, a in req:
        if a == 0:
            continue
        if n not in pd or pd[n][1] - pd[n][0] < a:
            return False
    return True


def _usage(pools):
    return {p[0]: p[1] for p in pools}


def _cap(pools):
    return {p[0]: p[2] for p in pools}


def _held_sum(held):
    s = Counter()
    for r in held:
        for n, a in r:
            s[n] += a
    return s


def _all_rops(sc):
    for x in sc['ext']:
        yield x
    for b in sc['cbs'] + sc['deferred']:
        for o in b:
            yield o


def monitor_c09(sc, obs):
    v = []

    def bad(sig, what):
        v.append(dict(sig=sig, what=what))
    prev = dict(pools=[], held=[], slots={})
    neg_add_seen = set()
    initialised = False
    if any(x[0] == 'merge' and x[1] == x[2] for x in _all_rops(sc)):
        return v          # a.merge(a) is outside the property ("two distinct reservations")
    for i, o in enumerate(obs):
        op = o['op']
        use, cap, hs = _usage(o['pools']), _cap(o['pools']), _held_sum(o['held'])
        is_direct = op[0] in ('add', 'reserve', 'release_all', 'release', 'merge', 'register')
        if not is_direct:
            for x in _all_rops(sc):
                if x[0] == 'add' and x[2] < 0:
                    neg_add_seen.add(x[1])
        elif op[0] == 'add' and op[2] < 0:
            neg_add_seen.add(op[1])
        for n in set(use) | set(hs):
            if use.get(n, 0) != hs.get(n, 0):
                bad('C09/usage-neq-reservations', 'op %d %s: usage of r%d is %d/8 but outstanding reservations hold %d/8' % (
                    i, op, n, use.get(n, 0), hs.get(n, 0)))
            if use.get(n, 0) < 0:
                bad('C09/negative-usage', 'op %d %s: usage of r%d is negative' % (i, op, n))
        for n, c in cap.items():
            if c < 0:
                bad('C09/negative-capacity', 'op %d %s: capacity of r%d became %d/8' % (i, op, n, c))
            if use.get(n, 0) > c and n not in neg_add_seen:
                bad('C09/over-capacity', 'op %d %s: usage of r%d (%d/8) exceeds capacity (%d/8) without any capacity reduction' % (
                    i, op, n, use[n], c))
        if is_direct and o['st'] != 0:
            if o['pools'] != prev['pools'] or o['held'] != prev['held']:
                bad('C09/error-changed-state', 'op %d %s raised (status %d) but changed pools %s -> %s, reservations %s -> %s' % (
                    i, op, o['st'], prev['pools'], o['pools'], prev['held'], o['held']))
        if op[0] == 'reserve' and o['st'] == 0:
            req = op[2]
            pos = [[n, a] for n, a in req if a > 0]
            should = _fits(prev['pools'], pos) and all(a >= 0 for _, a in req)
            did = len(o['held']) == len(prev['held']) + 1
            if all(a >= 0 for _, a in req):
                if should != did:
                    bad('C09/reserve-iff-fits', 'op %d %s: fits=%s but reservation %s' % (i, op, should, 'made' if did else 'refused'))
                pu = _usage(prev['pools'])
                for n in set(use) | set(pu):
                    want = sum(a for m, a in pos if m == n) if did else 0
                    if use.get(n, 0) - pu.get(n, 0) != want:
                        bad('C09/reserve-takes-exactly', 'op %d %s: usage of r%d changed by %d/8, expected %d/8' % (
                            i, op, n, use.get(n, 0) - pu.get(n, 0), want))
        if op[0] in ('release', 'release_all') and o['st'] == 0:
            idx = prev['slots'].get(op[1])
            if idx is not None and idx < len(prev['held']):
                before = dict(map(tuple, prev['held'][idx]))
                after = dict(map(tuple, o['held'][idx]))
                rel = before if op[0] == 'release_all' else dict((n, a) for n, a in op[2])
                pu = _usage(prev['pools'])
                for n in set(before) | set(rel):
                    r = rel.get(n, 0)
                    if before.get(n, 0) - after.get(n, 0) != r or pu.get(n, 0) - use.get(n, 0) != r:
                        bad('C09/release-exact', 'op %d %s: released %d/8 of r%d but reservation changed by %d/8 and pool by %d/8' % (
                            i, op, r, n, before.get(n, 0) - after.get(n, 0), pu.get(n, 0) - use.get(n, 0)))
        if op[0] == 'merge' and o['st'] == 0:
            a, b = prev['slots'].get(op[1]), prev['slots'].get(op[2])
            if a is not None and b is not None and a != b:
                if _usage(prev['pools']) != use:
                    bad('C09/merge-usage', 'op %d %s: merging two distinct reservations changed pool usage' % (i, op))
                if _held_sum(prev['held']) != hs:
                    bad('C09/merge-holdings', 'op %d %s: merging changed the total held amounts' % (i, op))
        prev = o
    return v


def monitor_c10(sc, obs):
    v = []

    def bad(sig, what):
        v.append(dict(sig=sig, what=what))
    # a callback or scripted action that raises is outside the well-posed class: judge only the prefix before it
    for i, o in enumerate(obs):
        if o['st'] in (1, 4) and o['op'][0] in ('step', 'run'):
            obs = obs[:i]
            break
    if not obs:
        return v
    last = obs[-1]
    seen = Counter()
    per_check = {}
    for c in last['cblog']:
        if c['reg'] is None:
            bad('C10/unknown-request', 'callback %d invoked with a request object that was never registered' % c['cb'])
            continue
        seen[c['reg']] += 1
        if not _fits(c['pools'], c['req']):
            bad('C10/called-when-infeasible', 'callback of registration %d invoked at %d although %s does not fit %s' % (
                c['reg'], c['time'], c['req'], c['pools']))
        if not c['manager_ok']:
            bad('C10/wrong-manager', 'callback of registration %d did not receive the resource manager' % c['reg'])
        if not c['is_copy']:
            bad('C10/not-a-copy', 'callback of registration %d received the caller\'s own dictionary, not a copy' % c['reg'])
        per_check.setdefault(c['check'], []).append(c['reg'])
    for r, n in seen.items():
        if n > 1:
            bad('C10/called-twice', 'registration %d had its callback invoked %d times' % (r, n))
    for ck, regs in per_check.items():
        if regs != sorted(regs):
            bad('C10/order', 'availability check #%d invoked callbacks in order %s, not registration order' % (ck, regs))
    # when time is about to advance no feasible request is still waiting:
    for i, o in enumerate(obs):
        pending_check_now = any(e[5] == 0 and e[1] == o['now'] for e in o['queue'])
        if o['op'][0] == 'init' or not any(x['op'][0] == 'init' for x in obs[:i + 1]):
            continue
        if not pending_check_now:
            for reg, req in o['waiting']:
                if _fits(o['pools'], req):
                    bad('C10/feasible-left-waiting', 'after op %d %s (t=%d): registration %d %s fits %s but no availability check is pending' % (
                        i, o['op'], o['now'], reg, req, o['pools']))
    return v


MONITORS = {'C09': monitor_c09, 'C10': monitor_c10}


def stats(sc, obs):
    c = Counter()
    for o in obs:
        c['op:' + o['op'][0]] += 1
        c['status:%d' % o['st']] += 1
    c['scenarios'] += 1
    if obs:
        c['callbacks_invoked'] += len(obs[-1]['cblog'])
        c['reservation_objects'] += len(obs[-1]['held'])
    return c


def nontrivial(prop, sc, obs):
    if not obs:
        return False
    if prop == 'C10':
        return len(obs[-1]['cblog']) >= 1 and obs[-1]['nregs'] >= 2
    multi = any(o['op'][0] == 'reserve' and len(o['op'][2]) >= 2 and o['st'] == 0 for o in obs)
    rel = any(o['op'][0] in ('release', 'release_all') and o['st'] == 0 for o in obs)
    return multi and rel and len(obs[-1]['held']) >= 2


def shrink_candidates(sc):
    ext = sc['ext']
    for i in range(len(ext) - 1, -1, -1):
        if ext[i][0] != 'init':
            yield dict(sc, ext=ext[:i] + ext[i + 1:])
    for key in ('cbs', 'deferred'):
        for i, body in enumerate(sc[key]):
            for j in range(len(body)):
                b2 = [list(b) for b in sc[key]]
                b2[i] = body[:j] + body[j + 1:]
                yield dict(sc, **{key: b2})


def locate(sc, flat, pos):
    n = flat[:pos + 1].count(-777) - 1
    return 'op #%d %s' % (n, sc['ext'][n] if 0 <= n < len(sc['ext']) else '?')
