"""Family F_line (C04): serial lines source -> (handlers, processors, buffers)* -> sink with constant parameters.

The scenarios are F_floor scenarios (lock-step with the floor model, family 6); the monitor compares the recorded entry
times of every station with the blocking-after-service recurrence of the property text, computed here independently:

  D(j,k) = max(A(j,k) + c_j, D(j,k-1), D(j+1, k - K_{j+1})),   A(j,k) = D(j-1,k),   A(0,k) = D(0,k-1)
  station 0 = source (c = its cycle time), last station = sink (c = its cycle time, K = 1), a buffer has c = minimum delay
  and K = capacity, handlers and processors have K = 1; D = time the k-th part leaves the station.
"""
from collections import Counter
from . import common
from . import fam_floor

FAMILY = 6
NAME = 'line'
Discard = fam_floor.Discard
TooLong = fam_floor.TooLong
encode = fam_floor.encode


def run_impl(sc):
    flat, obs = fam_floor.run_impl(sc)
    if obs:
        # the recurrence as defined in coq/Model/Line.v (about which the theorems are proved), evaluated by the extracted model
        obs[-1]['coqref'] = common.run_model(8, [encode(sc)])[0]
    return flat, obs


def gen(rng, size='small'):
    big = size != 'small'
    m = rng.randint(1, 4) if not big else rng.randint(2, 8)
    grid = [0, 4, 8, 8, 12, 16, 24] if rng.random() < 0.7 else [0, 1, 2, 3, 5, 8, 13]
    c0 = rng.choice(grid)
    budget = rng.choice([None, None, 3, 5, 9, 14, 0]) if c0 > 0 else rng.choice([2, 4, 7, 0])
    ents = [dict(kind='source', cycle=c0, budget=budget, gen_value=8, gen_quality=8, gen_batch=0)]
    for j in range(m):
        k = rng.choice(['handler', 'processor', 'processor', 'buffer', 'buffer'])
        e = dict(kind=k, up=[j + 1])
        if k == 'buffer':
            e.update(min_delay=rng.choice(grid), capacity=rng.choice([1, 1, 2, 3, 5, None]))
        else:
            e['cycle'] = rng.choice(grid)
        ents.append(e)
    ents.append(dict(kind='sink', cycle=rng.choice([0, 0, 4, 8, 3]), collect=False, up=[m + 1]))
    horizon = rng.choice([40, 80, 120, 200]) if not big else rng.choice([200, 400, 800])
    ext = [['init']]
    if rng.random() < 0.4:
        ext += [['step']] * rng.randint(1, 30)
    if rng.random() < 0.3:
        a = rng.choice([8, 20, 33])
        ext += [['run', a], ['run', horizon - a]]
    else:
        ext.append(['run', horizon])
    sc = dict(seed=rng.randint(0, 1000), mod=rng.choice([1, 3, 1 << 20]), entities=ents, pools=[], uops=[], ext=ext, focus='line')
    if rng.random() < 0.2:
        sc['tick'] = 1024      # the same line on a grid of 1/1024: exactly representable times that need ten decimal digits
    return sc


def reference(ents, n):
    """departure times D[j][k] (k = 1..n) of the recurrence; None entries = never (source budget exhausted)"""
    c, K = [], []
    for e in ents:
        if e['kind'] == 'buffer':
            c.append(e['min_delay'])
            K.append(e['capacity'])
        else:
            c.append(e['cycle'])
            K.append(1)
    budget = ents[0].get('budget')
    if budget is not None:
        n = min(n, budget)
    S = len(ents)
    D = [[0] * (n + 1) for _ in range(S)]

    def get(j, k):
        return 0 if k <= 0 else D[j][k]
    for k in range(1, n + 1):
        for j in range(S):
            A = get(0, k - 1) if j == 0 else D[j - 1][k]
            t = max(A + c[j], get(j, k - 1))
            if j + 1 < S and K[j + 1] is not None:
                t = max(t, get(j + 1, k - K[j + 1]))
            D[j][k] = t
    return D, n


def monitor_c04(sc, obs):
    v = []

    def bad(sig, what):
        v.append(dict(sig=sig, what=what))
    if not obs or sc.get('focus') != 'line' or any(o['st'] not in (0,) for o in obs):
        return v
    ents = sc['entities']
    S = len(ents)
    horizon = obs[-1]['now']
    entries = {j: [] for j in range(1, S)}      # station id j+1 in the scenario numbering is device j+1; station index = device id - 1
    for o in obs:
        for r in o['data']:
            if r[0] == 6:
                entries[r[1] - 1].append(r[3])
    nmax = max([len(x) for x in entries.values()] + [0]) + 3
    D, n = reference(ents, nmax)
    for j in range(1, S):
        exp_all = [D[j - 1][k] for k in range(1, n + 1)]
        got = entries[j]
        exp_before = [t for t in exp_all if t < horizon]
        exp_upto = [t for t in exp_all if t <= horizon]
        m = min(len(got), len(exp_all))
        if got[:m] != exp_all[:m]:
            k = next(i for i in range(m) if got[i] != exp_all[i])
            bad('C04/entry-time', 'part %d entered station %d (%s) at %d, the recurrence gives %d' % (k + 1, j, ents[j]['kind'], got[k], exp_all[k]))
        elif len(got) < len(exp_before):
            bad('C04/missing-part', 'station %d (%s) received %d parts by time %d, the recurrence gives %d strictly before it' % (j, ents[j]['kind'], len(got), horizon, len(exp_before)))
        elif len(got) > len(exp_upto):
            bad('C04/extra-part', 'station %d (%s) received %d parts by time %d, the recurrence gives at most %d' % (j, ents[j]['kind'], len(got), horizon, len(exp_upto)))
    cr = obs[-1].get('coqref')
    if cr is not None:
        ns, nn = cr[0], cr[1]
        rows = [cr[2 + k * ns: 2 + (k + 1) * ns] for k in range(nn)]
        mine = [[D[j][k] for j in range(S)] for k in range(1, min(n, nn) + 1)]
        if ns != S or rows[:len(mine)] != mine:
            bad('C04/coq-recurrence', 'the recurrence of coq/Model/Line.v and the monitor\'s reading of the property text disagree: %s vs %s' % (rows[:3], mine[:3]))
    sink = obs[-1]['devices'][S]
    exp_sink = [t for t in [D[S - 2][k] for k in range(1, n + 1)]]
    lo, hi = len([t for t in exp_sink if t < horizon]), len([t for t in exp_sink if t <= horizon])
    if not (lo <= sink['received'] <= hi):
        bad('C04/sink-count', 'the sink counts %d parts at time %d, the recurrence gives between %d and %d' % (sink['received'], horizon, lo, hi))
    return v


MONITORS = {'C04': monitor_c04}


def stats(sc, obs):
    c = fam_floor.stats(sc, obs)
    c['stations:%d' % (len(sc['entities']) - 2)] += 1
    return c


def nontrivial(prop, sc, obs):
    if not obs:
        return False
    recs = Counter(r[0] for o in obs for r in o['data'])
    return recs[6] >= 6 and any(e['kind'] == 'buffer' for e in sc['entities']) or recs[6] >= 10


shrink_candidates = fam_floor.shrink_candidates
locate = fam_floor.locate
