"""Family F_env: the bare Environment with scripted actions and external calls.

Scenario = dict(seed, mod, script=[[cmd,...],...], ops=[op,...]) where
  cmd = ('rel', dt, prio, asset, act) | ('abs', t, prio, asset, act) | ('pause', a) | ('unpause', a) | ('cancel', a)
  op  = ('sched', t, prio, asset, act) | ('pause', a) | ('unpause', a) | ('cancel', a) | ('step',) | ('run', d)
All times in ticks (1/8), priorities in 1/16.
"""
import random
from collections import Counter
from . import common
from .common import TICK, PRIO, to_ticks

FAMILY = 1
NAME = 'env'
STEP_LIMIT = 3000

BUILTIN_PRIOS = [32, 48, 64, 80, 96, 112, 128, 144, 160, 176]


class Discard(Exception):
    pass


class TooLong(Discard):
    pass


def encode(sc):
    out = [0, sc['seed'], sc['mod'], 0, 0, 0, 0, 0]
    code = {'rel': 1, 'abs': 2, 'pause': 3, 'unpause': 4, 'cancel': 5}
    for i, cmds in enumerate(sc['script']):
        for c in cmds:
            args = list(c[1:]) + [0] * 6
            out += [code[c[0]], i] + args[:6]
    ocode = {'sched': 10, 'pause': 11, 'unpause': 12, 'cancel': 13, 'step': 14, 'run': 15}
    for o in sc['ops']:
        args = list(o[1:]) + [0] * 7
        out += [ocode[o[0]]] + args[:7]
    return out


def gen(rng, size='small'):
    n_assets = rng.choice([1, 2, 2, 3, 3, 4])
    assets = list(range(1, n_assets + 1))
    if rng.random() < 0.25:
        assets = list(range(0, n_assets))      # ids are arbitrary integers: 0 is a legal asset id (only None is a no-op)
    # some scenarios live far from the origin (2**28 time units, exact on the 1/8 grid): nothing may depend on the magnitude of the clock
    base = 0 if rng.random() < 0.85 else (1 << 31)
    # one scenario in six schedules some of its events under asset id -1, the id the library itself uses for the events of the resource
    # manager and for the marker of run(): user events may carry it too (they are never paused or cancelled by id in these scenarios,
    # which would hit the marker as well)
    minus_one = rng.random() < 0.17

    def sched_asset():
        if minus_one and rng.random() < 0.4:
            return -1
        return rng.choice(assets)
    n_acts = rng.randint(2, 7)
    mod = rng.choice([1, 2, 3, 3, 5, 1 << 20, 1 << 20])
    fractional = rng.random() < 0.5

    def prio():
        p = rng.choice(BUILTIN_PRIOS)
        if fractional and rng.random() < 0.4:
            p += rng.choice([-8, -4, -1, 1, 4, 8])
        return p

    def dts():
        return rng.choice([0, 0, 1, 2, 3, 4, 8, 8, 12, 16, 24])

    script = []
    for i in range(n_acts):
        cmds = []
        for _ in range(rng.choice([0, 0, 1, 1, 1, 2, 2, 3])):
            r = rng.random()
            if r < 0.55:
                act = rng.randrange(n_acts)
                dt = dts()
                if act <= i and dt < 4:
                    dt = rng.choice([4, 8, 12])
                if sum(1 for c in cmds if c[0] in ('rel', 'abs')) >= 2:
                    continue
                cmds.append(('rel', dt, prio(), sched_asset(), act))
            elif r < 0.60:
                act = rng.randrange(n_acts)
                cmds.append(('abs', base + rng.randint(0, 80), prio(), sched_asset(), act))
            elif r < 0.75:
                cmds.append(('pause', rng.choice(assets)))
            elif r < 0.90:
                cmds.append(('unpause', rng.choice(assets)))
            else:
                cmds.append(('cancel', rng.choice(assets)))
        script.append(cmds)

    n_ops = rng.randint(4, 14) if size == 'small' else rng.randint(10, 60)
    # a fifth of the scenarios are pause-heavy: the same asset paused again while it already has paused events, interleaved with
    # pauses of other assets and new events, so that the paused events of one asset are not adjacent in the paused list
    pausey = rng.random() < 0.2
    cut = (0.40, 0.52, 0.64, 0.70, 0.88)
    if pausey:
        cut = (0.42, 0.68, 0.82, 0.84, 0.95)
        n_ops = rng.randint(10, 22) if size == 'small' else rng.randint(20, 60)
    ops = []
    est = base
    if base:
        ops += [('sched', base, prio(), rng.choice(assets), rng.randrange(n_acts)), ('run', base)]
    for _ in range(n_ops):
        r = rng.random()
        if r < cut[0]:
            t = est + dts()
            if rng.random() < 0.05:
                t = max(0, est - rng.choice([1, 1, 2, 3, 5, 10]))     # malformed: possibly in the past
            ops.append(('sched', t, prio(), sched_asset(), rng.randrange(n_acts)))
        elif r < cut[1]:
            ops.append(('pause', rng.choice(assets)))
        elif r < cut[2]:
            ops.append(('unpause', rng.choice(assets)))
        elif r < cut[3]:
            ops.append(('cancel', rng.choice(assets)))
        elif r < cut[4]:
            ops.append(('step',))
            est += rng.choice([0, 0, 1, 2])
        else:
            d = rng.choice([0, 1, 4, 8, 8, 16, 24, 40])
            if rng.random() < 0.03:
                d = -rng.randint(1, 8)
            ops.append(('run', d))
            est += max(d, 0)
    return dict(seed=rng.randint(0, 1000), mod=mod, script=script, ops=ops)


def enc_event(ev, paused):
    act = getattr(ev.action, '_verif_act', -1)
    out = [ev._verif_eid, to_ticks(ev.time), to_ticks(ev.event_type, PRIO), int(round(ev.random_weight * common.WDEN)),
           ev.asset_id, act, 1 if ev.cancelled else 0]
    if ev.paused_at is None:
        out += [0, 0]
    else:
        out += [1, to_ticks(ev.paused_at)]
    return out


def observe(env, elog, op, st):
    def evd(ev):
        return dict(eid=ev._verif_eid, time=to_ticks(ev.time), prio=to_ticks(ev.event_type, PRIO),
                    w=int(round(ev.random_weight * common.WDEN)), asset=ev.asset_id,
                    act=getattr(ev.action, '_verif_act', -1), cancelled=bool(ev.cancelled),
                    paused_at=None if ev.paused_at is None else to_ticks(ev.paused_at))
    return dict(op=op, st=st, now=to_ticks(env.now), terminated=bool(env._terminated),
                queue=[evd(e) for e in env._events], paused=[evd(e) for e in env._paused_events],
                elog=list(elog))


def snapshot(env, patch, elog):
    out = [to_ticks(env.now), 1 if env._terminated else 0, patch.n, len(env._events), len(env._paused_events)]
    for ev in env._events:
        out += enc_event(ev, False)
    for ev in env._paused_events:
        out += enc_event(ev, True)
    out.append(len(elog))
    for a, t in elog:
        out += [a, t]
    return out


def run_impl(sc):
    """Drive the real Environment; returns the flat integer trace."""
    from simprocesd.model.simulation import Environment
    out = []
    obs = []
    with common.WeightPatch(sc['seed'], sc['mod']) as patch:
        env = Environment()
        elog = []
        steps = [0]
        orig_step = env.step

        def counted_step():
            steps[0] += 1
            if steps[0] > STEP_LIMIT:
                raise TooLong()
            orig_step()
        env.step = counted_step

        def make_action(i):
            def action():
                elog.append((i, to_ticks(env.now)))
                for c in sc['script'][i] if i < len(sc['script']) else []:
                    k = c[0]
                    if k == 'rel':
                        env.schedule_event(env.now + c[1] / TICK, c[3], actions[c[4]], c[2] / PRIO)
                    elif k == 'abs':
                        env.schedule_event(c[1] / TICK, c[3], actions[c[4]], c[2] / PRIO)
                    elif k == 'pause':
                        env.pause_matching_events(c[1])
                    elif k == 'unpause':
                        env.unpause_matching_events(c[1])
                    elif k == 'cancel':
                        env.cancel_matching_events(c[1])
            action._verif_act = i
            return action
        n_acts = max([len(sc['script'])] + [o[4] + 1 for o in sc['ops'] if o[0] == 'sched']
                     + [c[4] + 1 for cs in sc['script'] for c in cs if c[0] in ('rel', 'abs')])
        actions = [make_action(i) for i in range(n_acts)]

        import io, contextlib
        for o in sc['ops']:
            st = 0
            sink = io.StringIO()
            try:
                with contextlib.redirect_stdout(sink):
                    k = o[0]
                    if k == 'sched':
                        env.schedule_event(o[1] / TICK, o[3], actions[o[4]], o[2] / PRIO)
                    elif k == 'pause':
                        env.pause_matching_events(o[1])
                    elif k == 'unpause':
                        env.unpause_matching_events(o[1])
                    elif k == 'cancel':
                        env.cancel_matching_events(o[1])
                    elif k == 'step':
                        env.step()
                    elif k == 'run':
                        env.run(o[1] / TICK)
            except ValueError:
                st = 1
            except IndexError:
                st = 2
            out += [-777, st] + snapshot(env, patch, elog)
            obs.append(observe(env, elog, o, st))
    return out, obs



# ------------------------------------------------------------------ monitors (search aids; written from the property text)
def _key(e):
    return (e['time'], -e['prio'], e['w'], e['asset'])


def monitor_c01(sc, obs):
    v = []

    def bad(sig, what):
        v.append(dict(sig=sig, what=what))
    prev = dict(now=0, queue=[], paused=[], elog=[], terminated=True)
    gone = set()
    for i, o in enumerate(obs):
        q = o['queue']
        for a, b in zip(q, q[1:]):
            if _key(b) < _key(a):
                bad('C01/order', 'op %d: pending events not in (time, priority, weight, id) order' % i)
        if o['now'] < prev['now']:
            bad('C01/clock-backwards', 'op %d (%s): clock went from %d to %d ticks' % (i, o['op'][0], prev['now'], o['now']))
        for e in q:
            if e['time'] < o['now']:
                bad('C01/pending-in-past', 'op %d: pending event %d due at %d < now %d' % (i, e['eid'], e['time'], o['now']))
        ts = [t for _, t in o['elog']]
        if any(b < a for a, b in zip(ts, ts[1:])):
            bad('C01/exec-order', 'op %d: actions executed out of time order' % i)
        present = {e['eid'] for e in q} | {e['eid'] for e in o['paused']}
        before = {e['eid'] for e in prev['queue']} | {e['eid'] for e in prev['paused']}
        if present & gone:
            bad('C01/twice', 'op %d: a dispatched event is pending again' % i)
        gone |= (before - present)
        k = o['op'][0]
        if k == 'sched':
            if o['op'][1] < prev['now']:
                if o['st'] != 1 or [e['eid'] for e in q] != [e['eid'] for e in prev['queue']]:
                    bad('C01/past-accepted', 'op %d: scheduling at %d < now %d was not rejected' % (i, o['op'][1], prev['now']))
            elif o['st'] != 0:
                bad('C01/future-rejected', 'op %d: scheduling at %d >= now %d was rejected' % (i, o['op'][1], prev['now']))
        if k == 'step' and prev['queue'] and o['st'] in (0, 1):
            h = min(prev['queue'], key=_key)
            if h['eid'] in present:
                bad('C01/not-minimum', 'op %d: step did not dispatch the minimal pending event %d' % (i, h['eid']))
            if o['now'] != h['time']:
                bad('C01/clock-not-event-time', 'op %d: clock %d differs from the dispatched event time %d' % (i, o['now'], h['time']))
            new = o['elog'][len(prev['elog']):]
            if h['cancelled'] and new:
                bad('C01/cancelled-ran', 'op %d: a cancelled event ran its action' % i)
            if not h['cancelled'] and h['act'] >= 0 and [a for a, _ in new] != [h['act']]:
                bad('C01/at-most-once', 'op %d: dispatched action %d ran %d times' % (i, h['act'], len(new)))
        if k == 'run' and o['st'] == 0 and o['op'][1] >= 0 and not any(e['act'] == -1 for e in prev['queue'] + prev['paused']):
            t1 = prev['now'] + o['op'][1]
            if o['now'] != t1:
                bad('C01/run-end', 'op %d: run(%d) from %d ended at %d' % (i, o['op'][1], prev['now'], o['now']))
            for e in q:
                if not e['cancelled'] and e['time'] <= t1 and e['act'] != -1:
                    bad('C01/run-left-due', 'op %d: live event %d due at %d <= %d not executed by the run' % (i, e['eid'], e['time'], t1))
            for a, t in o['elog'][len(prev['elog']):]:
                if t > t1:
                    bad('C01/run-overran', 'op %d: run executed an event due at %d > %d' % (i, t, t1))
        prev = o
    return v


class _Ambiguous(Exception):
    pass


class _Ref:
    """Abstract spec of C07: every event is pending(time) / paused(remaining) / cancelled flag; independent of the queue layout."""

    def __init__(self, sc):
        self.sc, self.now, self.ev, self.n, self.log, self.term = sc, 0, {}, 0, [], True

    def sched(self, t, prio, asset, act):
        if t < self.now:
            raise ValueError()
        w = common.wgen(self.sc['seed'], self.sc['mod'], self.n)
        self.ev[self.n] = dict(time=t, prio=prio, w=w, asset=asset, act=act, cancelled=False, remaining=None)
        self.n += 1

    def pause(self, a):
        for e in self.ev.values():
            if e['asset'] == a and e['remaining'] is None:
                e['remaining'] = e['time'] - self.now

    def unpause(self, a):
        for e in self.ev.values():
            if e['asset'] == a and e['remaining'] is not None:
                e['time'] = self.now + e['remaining']
                e['remaining'] = None

    def cancel(self, a):
        for e in self.ev.values():
            if e['asset'] == a:
                e['cancelled'] = True

    def step(self):
        pend = [(k, e) for k, e in self.ev.items() if e['remaining'] is None]
        if not pend:
            raise IndexError()
        k, e = min(pend, key=lambda p: _key(p[1]))
        if sum(1 for _, e2 in pend if _key(e2) == _key(e)) > 1:
            # two pending events agree on time, priority, weight and asset id: neither C01 nor C07 says which one goes first
            # (the implementation serves them in the order of their last insertion); the specification abstains
            raise _Ambiguous()
        del self.ev[k]
        self.now = e['time']
        if e['cancelled']:
            return
        if e['act'] == -1:
            self.term = True
            return
        self.log.append((e['act'], self.now))
        for c in (self.sc['script'][e['act']] if e['act'] < len(self.sc['script']) else []):
            if c[0] == 'rel':
                self.sched(self.now + c[1], c[2], c[3], c[4])
            elif c[0] == 'abs':
                self.sched(c[1], c[2], c[3], c[4])
            else:
                getattr(self, c[0])(c[1])

    def run(self, d):
        self.term = False
        self.sched(self.now + d, 16, -1, -1)
        n = 0
        while any(e['remaining'] is None for e in self.ev.values()) and not self.term:
            self.step()
            n += 1
            if n > STEP_LIMIT:
                raise TooLong()


def monitor_c07(sc, obs):
    v = []
    ref = _Ref(sc)
    for i, o in enumerate(obs):
        op = o['op']
        try:
            if op[0] == 'sched':
                ref.sched(op[1], op[2], op[3], op[4])
            elif op[0] in ('pause', 'unpause', 'cancel'):
                getattr(ref, op[0])(op[1])
            elif op[0] == 'step':
                ref.step()
            elif op[0] == 'run':
                ref.run(op[1])
        except (ValueError, IndexError):
            pass
        except (TooLong, _Ambiguous):
            return v
        pend_ref = sorted((k, e['time'], e['cancelled']) for k, e in ref.ev.items() if e['remaining'] is None)
        pend_imp = sorted((e['eid'], e['time'], e['cancelled']) for e in o['queue'])
        paus_ref = sorted((k, e['remaining'], e['cancelled']) for k, e in ref.ev.items() if e['remaining'] is not None)
        paus_imp = sorted((e['eid'], e['time'] - e['paused_at'], e['cancelled']) for e in o['paused'])
        if pend_ref != pend_imp:
            kind = op[0]
            v.append(dict(sig='C07/pending-after-' + kind,
                          what='op %d %s: pending events (id, time, cancelled) %s, specification says %s' % (i, op, pend_imp[:6], pend_ref[:6])))
            return v
        if paus_ref != paus_imp:
            v.append(dict(sig='C07/paused-after-' + op[0],
                          what='op %d %s: paused events (id, remaining delay, cancelled) %s, specification says %s' % (i, op, paus_imp[:6], paus_ref[:6])))
            return v
        if ref.log != o['elog']:
            v.append(dict(sig='C07/executed-after-' + op[0],
                          what='op %d %s: executed actions differ from the specification (a withheld or cancelled action ran, or a live one did not)' % (i, op)))
            return v
    return v


MONITORS = {'C01': monitor_c01, 'C07': monitor_c07}


def stats(sc, obs):
    c = Counter()
    for o in obs:
        c['op:' + o['op'][0]] += 1
        c['status:%d' % o['st']] += 1
    c['scenarios'] += 1
    c['executed_actions'] += len(obs[-1]['elog']) if obs else 0
    c['max_queue'] = 0
    return c


def nontrivial(prop, sc, obs):
    if prop == 'C07':
        # a pause at a non-zero time that actually withheld an event, later resumed while still pending
        withheld = set()
        for o in obs:
            if o['op'][0] == 'pause' and o['now'] > 0:
                withheld |= {e['eid'] for e in o['paused'] if e['asset'] == o['op'][1] and e['paused_at'] == o['now']}
            if o['op'][0] == 'unpause' and withheld & {e['eid'] for e in o['queue']}:
                return True
        return False
    # C01: at least two events due at the same instant with different priorities were pending, and a run executed something
    tie = any(len({e['prio'] for e in o['queue'] if e['time'] == t}) > 1
              for o in obs for t in {e['time'] for e in o['queue']})
    ran = any(o['op'][0] == 'run' and o['st'] == 0 for o in obs)
    return tie and ran and len(obs[-1]['elog']) >= 3


def shrink_candidates(sc):
    ops = sc['ops']
    for i in range(len(ops) - 1, -1, -1):
        yield dict(sc, ops=ops[:i] + ops[i + 1:])
    for i, cmds in enumerate(sc['script']):
        for j in range(len(cmds)):
            s2 = [list(c) for c in sc['script']]
            s2[i] = cmds[:j] + cmds[j + 1:]
            yield dict(sc, script=s2)


def locate(sc, flat, pos):
    n = flat[:pos + 1].count(-777) - 1
    return 'op #%d %s' % (n, sc['ops'][n] if 0 <= n < len(sc['ops']) else '?')
