"""Family F_env: the bare Environment with scripted actions and external calls.

Scenario = dict(seed, mod, script=[[cmd,...],...], ops=[op,...]) where
  cmd = ('rel', dt, prio, asset, act) | ('abs', t, prio, asset, act) | ('pause', a) | ('unpause', a) | ('cancel', a)
  op  = ('sched', t, prio, asset, act) | ('pause', a) | ('unpause', a) | ('cancel', a) | ('step',) | ('run', d)
All times in ticks (1/8), priorities in 1/16.
"""
import random
from . import common
from .common import TICK, PRIO, to_ticks

FAMILY = 1
STEP_LIMIT = 3000

BUILTIN_PRIOS = [32, 48, 64, 80, 96, 112, 128, 144, 160, 176]


class TooLong(Exception):
    pass


def encode(sc):
    out = [0, sc['seed'], sc['mod'], 0, 0, 0, 0, 0]
    code = {'rel': 1, 'abs': 2, 'pause': 3, 'unpause': 4, 'cancel': 5}
    for i, cmds in enumerate(sc['script']):
        for c in cmds:
            args = list(c[1:]) + [0] * 6
            out += [code[c[0]], i] + args[:6]
    ocode = {'sched': 10, 'pause': 11, 'unpause': 12, 'cancel': 13, 'step': 14, 'run': 15}
    for o in sc['ops']:
        args = list(o[1:]) + [0] * 7
        out += [ocode[o[0]]] + args[:7]
    return out


def gen(rng, size='small'):
    n_assets = rng.choice([1, 2, 2, 3, 3, 4])
    assets = list(range(1, n_assets + 1))
    n_acts = rng.randint(2, 7)
    mod = rng.choice([1, 2, 3, 3, 5, 1 << 20, 1 << 20])
    fractional = rng.random() < 0.5

    def prio():
        p = rng.choice(BUILTIN_PRIOS)
        if fractional and rng.random() < 0.4:
            p += rng.choice([-8, -4, -1, 1, 4, 8])
        return p

    def dts():
        return rng.choice([0, 0, 1, 2, 3, 4, 8, 8, 12, 16, 24])

    script = []
    for i in range(n_acts):
        cmds = []
        for _ in range(rng.choice([0, 0, 1, 1, 1, 2, 2, 3])):
            r = rng.random()
            if r < 0.55:
                act = rng.randrange(n_acts)
                dt = dts()
                if act <= i and dt < 4:
                    dt = rng.choice([4, 8, 12])
                if sum(1 for c in cmds if c[0] in ('rel', 'abs')) >= 2:
                    continue
                cmds.append(('rel', dt, prio(), rng.choice(assets), act))
            elif r < 0.60:
                act = rng.randrange(n_acts)
                cmds.append(('abs', rng.randint(0, 80), prio(), rng.choice(assets), act))
            elif r < 0.75:
                cmds.append(('pause', rng.choice(assets)))
            elif r < 0.90:
                cmds.append(('unpause', rng.choice(assets)))
            else:
                cmds.append(('cancel', rng.choice(assets)))
        script.append(cmds)

    n_ops = rng.randint(4, 14) if size == 'small' else rng.randint(10, 60)
    ops = []
    est = 0
    for _ in range(n_ops):
        r = rng.random()
        if r < 0.40:
            t = est + dts()
            if rng.random() < 0.05:
                t = max(0, est - rng.randint(1, 10))     # malformed: possibly in the past
            ops.append(('sched', t, prio(), rng.choice(assets), rng.randrange(n_acts)))
        elif r < 0.52:
            ops.append(('pause', rng.choice(assets)))
        elif r < 0.64:
            ops.append(('unpause', rng.choice(assets)))
        elif r < 0.70:
            ops.append(('cancel', rng.choice(assets)))
        elif r < 0.88:
            ops.append(('step',))
            est += rng.choice([0, 0, 1, 2])
        else:
            d = rng.choice([0, 1, 4, 8, 8, 16, 24, 40])
            if rng.random() < 0.03:
                d = -rng.randint(1, 8)
            ops.append(('run', d))
            est += max(d, 0)
    return dict(seed=rng.randint(0, 1000), mod=mod, script=script, ops=ops)


def enc_event(ev, paused):
    act = getattr(ev.action, '_verif_act', -1)
    out = [ev._verif_eid, to_ticks(ev.time), to_ticks(ev.event_type, PRIO), int(round(ev.random_weight * common.WDEN)),
           ev.asset_id, act, 1 if ev.cancelled else 0]
    if ev.paused_at is None:
        out += [0, 0]
    else:
        out += [1, to_ticks(ev.paused_at)]
    return out


def snapshot(env, patch, elog):
    out = [to_ticks(env.now), 1 if env._terminated else 0, patch.n, len(env._events), len(env._paused_events)]
    for ev in env._events:
        out += enc_event(ev, False)
    for ev in env._paused_events:
        out += enc_event(ev, True)
    out.append(len(elog))
    for a, t in elog:
        out += [a, t]
    return out


def run_impl(sc):
    """Drive the real Environment; returns the flat integer trace."""
    from simprocesd.model.simulation import Environment
    out = []
    with common.WeightPatch(sc['seed'], sc['mod']) as patch:
        env = Environment()
        elog = []
        steps = [0]
        orig_step = env.step

        def counted_step():
            steps[0] += 1
            if steps[0] > STEP_LIMIT:
                raise TooLong()
            orig_step()
        env.step = counted_step

        def make_action(i):
            def action():
                elog.append((i, to_ticks(env.now)))
                for c in sc['script'][i] if i < len(sc['script']) else []:
                    k = c[0]
                    if k == 'rel':
                        env.schedule_event(env.now + c[1] / TICK, c[3], actions[c[4]], c[2] / PRIO)
                    elif k == 'abs':
                        env.schedule_event(c[1] / TICK, c[3], actions[c[4]], c[2] / PRIO)
                    elif k == 'pause':
                        env.pause_matching_events(c[1])
                    elif k == 'unpause':
                        env.unpause_matching_events(c[1])
                    elif k == 'cancel':
                        env.cancel_matching_events(c[1])
            action._verif_act = i
            return action
        n_acts = max([len(sc['script'])] + [o[4] + 1 for o in sc['ops'] if o[0] == 'sched']
                     + [c[4] + 1 for cs in sc['script'] for c in cs if c[0] in ('rel', 'abs')])
        actions = [make_action(i) for i in range(n_acts)]

        import io, contextlib
        for o in sc['ops']:
            st = 0
            sink = io.StringIO()
            try:
                with contextlib.redirect_stdout(sink):
                    k = o[0]
                    if k == 'sched':
                        env.schedule_event(o[1] / TICK, o[3], actions[o[4]], o[2] / PRIO)
                    elif k == 'pause':
                        env.pause_matching_events(o[1])
                    elif k == 'unpause':
                        env.unpause_matching_events(o[1])
                    elif k == 'cancel':
                        env.cancel_matching_events(o[1])
                    elif k == 'step':
                        env.step()
                    elif k == 'run':
                        env.run(o[1] / TICK)
            except ValueError:
                st = 1
            except IndexError:
                st = 2
            out += [-777, st] + snapshot(env, patch, elog)
    return out


def nontrivial(sc, trace):
    """C07 rule: a pause at a non-zero time followed later by an unpause of a still-pending event.
    Approximated structurally: has pause and later unpause of the same asset, and some run/step between start and pause."""
    seen_adv = False
    paused = set()
    for o in sc['ops']:
        if o[0] in ('step', 'run'):
            seen_adv = True
        if o[0] == 'pause' and seen_adv:
            paused.add(o[1])
        if o[0] == 'unpause' and o[1] in paused:
            return True
    return False
