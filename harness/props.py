"""Per-property configuration of the check driver.

families: (family name, quick count, thorough count, quick size, thorough size)
"""
PROPS = {
    'C01': dict(
        vfile='Props/C01.v', ties=['Tie/TieEnv.v', 'Tie/TieFloor.v'],
        families=[('env', 1200, 30000, 'small', 'large'), ('floor', 120, 3000, 'small', 'large')],
        rule='F_env scenarios: scripted actions + external calls on the real Environment, generated from VERIF_SEED; plus F_floor scenarios (whole systems driven through System.simulate, incl. runs of length zero and split runs); '
             'non-trivial = events with different priorities due at the same instant were pending, a run() completed and >= 3 actions ran; distinct by scenario text',
        explanation='Theorems over the generic event-system model for every action behaviour, weight source and interleaving '
                    '(induction on reachability); tie = regenerated fact tables + lock-step state comparison after every call.',
        assumptions=['times and priorities on the 1/8 and 1/16 grids; no NaN; no re-entrant step()/run() from inside an action']),
    'C07': dict(
        vfile='Props/C07.v', ties=['Tie/TieEnv.v'],
        families=[('env', 1200, 30000, 'small', 'large')],
        rule='F_env scenarios; non-trivial = a pause at a non-zero time withheld a pending event that was later resumed while still paused; distinct by scenario text',
        explanation='Characterisation theorems for pause/unpause/cancel on an arbitrary invariant-satisfying environment, '
                    'cancelled-never-runs over all continuations; tie = lock-step on the real Environment.',
        assumptions=['asset_id=None calls (documented no-ops) are not modelled']),
    'C09': dict(
        vfile='Props/C09.v', ties=['Tie/TieEnv.v', 'Tie/TieRM.v'],
        families=[('rm', 1500, 40000, 'small', 'large')],
        rule='F_rm scenarios: pools, multi-resource/zero/negative/unknown reservations, partial and repeated releases, merges, waiting callbacks, '
             'capacity changes, generated from VERIF_SEED (corpus/rm first); non-trivial = a successful multi-resource reservation, a successful release and >= 2 reservation objects; distinct by scenario text',
        explanation='Pool invariant proved for every operation sequence (incl. callbacks during availability checks); per-operation specifications; '
                    'tie = fact tables + lock-step on the real ResourceManager/ReservedResources.',
        assumptions=['request dictionaries have distinct keys (Python dicts)', 'a.merge(a) is outside the property (two distinct reservations)',
                     'ReservedResources.__del__ (a print) not modelled']),
    'C10': dict(
        vfile='Props/C10.v', ties=['Tie/TieEnv.v', 'Tie/TieRM.v'],
        families=[('rm', 1500, 40000, 'small', 'large')],
        rule='F_rm scenarios with waiting callbacks that reserve/release/add/register inside the callback, several waiters, capacity schedules; '
             'non-trivial = at least two registrations and at least one callback invocation; distinct by scenario text',
        explanation='Scan theorems (only-when-feasible, exactly-once via ghost registration numbers, registration order, completeness) and the '
                    'system-level invariant "nothing feasible waits or a check is pending now", preserved by every event and external call; '
                    'tie = fact tables + lock-step on the real ResourceManager inside the real Environment.',
        assumptions=['callbacks do not raise (a raising callback leaves its entry in the list: outside the well-posed class)',
                     'registration numbers and logged pools are ghost fields of the model']),
    'C12': dict(
        vfile='Props/C12.v', ties=['Tie/TieEnv.v', 'Tie/TieMaint.v', 'Tie/TieFloor.v'],
        families=[('maint', 1500, 40000, 'small', 'large'), ('floor', 120, 3000, 'small', 'large')],
        rule='F_maint scenarios: capacities incl. 0 and infinity, needed capacities incl. 0 and above the total, durations incl. 0, duplicates, '
             'same-instant bursts, requests issued from start/end hooks; non-trivial = at least two orders started and an order had to wait; distinct by scenario text',
        explanation='Maintainer invariant + scan/creation/start/finish specifications for every request stream; system invariant (one live event per order in progress) '
                    'preserved by every executed event for every hook behaviour; tie = fact tables + lock-step on the real Maintainer in the real Environment.',
        assumptions=['needed capacities and durations are non-negative', 'hooks reach the maintainer only through create_work_order',
                     'try_working_requests modelled as one left-to-right pass (nothing is appended during the loop); checked by the lock-step']),
    'C18': dict(
        vfile='Props/C18.v', ties=['Tie/TieEnv.v', 'Tie/TieSched.v'],
        families=[('sched', 1500, 40000, 'small', 'large')],
        rule='F_sched scenarios: timetables of 1-5 states (repeated states, integer and fractional durations, zero durations), cyclic / not / argument omitted, '
             'register/unregister before the run and from other events during it; non-trivial = more state changes than timetable entries and >= 2 action calls; distinct by scenario text',
        explanation='Registration, per-change action calls and the timetable arithmetic proved for every timetable; system invariant: one pending transition at the prescribed time; '
                    'tie = fact tables (incl. the is_cyclical=True default) + lock-step on the real ActionScheduler.',
        assumptions=['timetable non-empty (asserted by the constructor)', 'actions only log (they do not re-enter the scheduler)']),
    'C19': dict(
        vfile='Props/C19.v', ties=['Tie/TieEnv.v', 'Tie/TieSensor.v'],
        families=[('sensor', 1500, 40000, 'small', 'large')],
        rule='F_sensor scenarios: periodic sensor (1-3 probes incl. a list attribute mutated in place), output-part sensor, Cms, callbacks added before/after start, '
             'probed attributes changed by events; non-trivial = a data capacity was reached and a callback ran; distinct by scenario text',
        explanation='Series = most recent min(count, capacity) measurements and aligned (incl. the time series), part counting, callback order, Cms idempotence, '
                    'k-th measurement k intervals after the start (system invariant); tie = fact tables + lock-step on the real sensors.',
        assumptions=['copy.copy of a probed value: checked by the lock-step with a list attribute mutated in place (values are immutable in the model)',
                     'data_capacity >= 1 (asserted by the constructor)']),
    'C02': dict(
        vfile='Props/C02.v', ties=['Tie/TieEnv.v', 'Tie/TieFloor.v'],
        families=[('floor', 400, 12000, 'small', 'large')],
        rule='F_floor scenarios: layered production lines (sources incl. cycle 0 and finite budgets, handlers, processors with resources/callbacks/work orders, buffers with delay and capacity, batchers, decision gates, flow controllers, shared groups reached through several paths incl. nested and re-entrant use, sinks), scripted failures/shutdowns/restores/blocking/capacity changes/budget adjustments/one-shot offsets/mid-run rewiring/devices constructed mid-run with upstream devices named in the constructor, many single steps then runs, generated from VERIF_SEED (corpus/floor first); '
             'non-trivial = at least 8 parts received by devices and 3 supplied by sources; distinct by scenario text',
        explanation='The census equation (generated = inside + delivered + lost, as multisets of part identities) proved for every state any well-formed scenario can reach; '
                    'ingredients: an offer raises the census by the part exactly when accepted (induction over the recursive hand-over), a waiting part stays where it is while being offered (frame), '
                    'every other step is census-neutral; single-slot invariant; every device change is a guarded transformer; a failure loses exactly the input part. '
                    'Tie = fact tables + lock-step (full device contents after every event) + census monitor on the implementation.',
        assumptions=['well-posed layouts: the decoder-built initial world passes the executable check wf_worldb (nothing downstream of a sink, everything empty)',
                     'user callbacks are drawn from the scripted callback language (DESIGN.md appendix A)',
                     'the ghost lists made/delivered/lost exist in the model only']),
    'C05': dict(
        vfile='Props/C05.v', ties=['Tie/TieEnv.v', 'Tie/TieFloor.v'],
        families=[('floor', 400, 12000, 'small', 'large')],
        rule='F_floor scenarios: layered production lines (sources incl. cycle 0 and finite budgets, handlers, processors with resources/callbacks/work orders, buffers with delay and capacity, batchers, decision gates, flow controllers, shared groups reached through several paths incl. nested and re-entrant use, sinks), scripted failures/shutdowns/restores/blocking/capacity changes/budget adjustments/one-shot offsets/mid-run rewiring/devices constructed mid-run with upstream devices named in the constructor, many single steps then runs, generated from VERIF_SEED (corpus/floor first); '
             'non-trivial = a buffer is present and its level changed at least 4 times; distinct by scenario text',
        explanation='Buffer invariant (level = stored count <= capacity, entry times non-decreasing, FIFO) proved for every reachable state; the head leaves only when now >= entry + minimum delay; '
                    'tie = fact tables + lock-step on the real Buffer.',
        assumptions=['well-posed layouts', 'capacity >= 1 or None, minimum_delay >= 0']),
    'C13': dict(
        vfile='Props/C13.v', ties=['Tie/TieEnv.v', 'Tie/TieFloor.v', 'Tie/TieMaint.v'],
        families=[('floor', 400, 12000, 'small', 'large'), ('sys', 300, 6000, 'small', 'large')],
        rule='F_floor scenarios: layered production lines (sources incl. cycle 0 and finite budgets, handlers, processors with resources/callbacks/work orders, buffers with delay and capacity, batchers, decision gates, flow controllers, shared groups reached through several paths incl. nested and re-entrant use, sinks), scripted failures/shutdowns/restores/blocking/capacity changes/budget adjustments/one-shot offsets/mid-run rewiring/devices constructed mid-run with upstream devices named in the constructor, many single steps then runs, generated from VERIF_SEED (corpus/floor first); '
             'non-trivial = a failure or a pause happened and at least 2 parts were produced; distinct by scenario text',
        explanation='Processor state-machine theorems (shut down: accepts nothing, releases nothing; failure: loses exactly the input part; repeated shutdown/restore are no-ops), '
                    'clock invariant and exact uptime/utilisation accounting for every reachable state and every time advance; a clause false of the original code '
                    '(failure during a shutdown, coq/Findings/C13_refuted.v) was repaired by a fix: commit; tie = fact tables + lock-step + accounting monitor on the real PartProcessor.',
        assumptions=['well-posed layouts', 'callbacks from the scripted language']),
    'C16': dict(
        vfile='Props/C16.v', ties=['Tie/TieEnv.v', 'Tie/TieFloor.v'],
        families=[('floor', 400, 12000, 'small', 'large'), ('value', 150, 4000, 'small', 'large')],
        rule='F_floor scenarios: layered production lines (sources incl. cycle 0 and finite budgets, handlers, processors with resources/callbacks/work orders, buffers with delay and capacity, batchers, decision gates, flow controllers, shared groups reached through several paths incl. nested and re-entrant use, sinks), scripted failures/shutdowns/restores/blocking/capacity changes/budget adjustments/one-shot offsets/mid-run rewiring/devices constructed mid-run with upstream devices named in the constructor, many single steps then runs, generated from VERIF_SEED (corpus/floor first); '
             'non-trivial = at least 8 parts received and 3 supplied; distinct by scenario text',
        explanation='Value theorems: a generated part carries the generator value; every device adds its value exactly once on acceptance (guarded transformer), '
                    'sink value = sum of received; cost bookkeeping of work orders (C12_start); tie = lock-step on values of every part/device after every event; '
                    'the net value of the system is compared on the implementation with the sum over every asset the experiment constructed, including assets created while the simulation is in progress (between two runs and from a callback).',
        assumptions=['well-posed layouts', 'values on the 1/8 grid']),
    'C17': dict(
        vfile='Props/C17.v', ties=['Tie/TieEnv.v', 'Tie/TieFloor.v'],
        families=[('floor', 400, 12000, 'small', 'large'), ('value', 100, 3000, 'small', 'large')],
        rule='F_floor scenarios: layered production lines (sources incl. cycle 0 and finite budgets, handlers, processors with resources/callbacks/work orders, buffers with delay and capacity, batchers, decision gates, flow controllers, shared groups reached through several paths incl. nested and re-entrant use, sinks), scripted failures/shutdowns/restores/blocking/capacity changes/budget adjustments/one-shot offsets/mid-run rewiring/devices constructed mid-run with upstream devices named in the constructor, many single steps then runs, generated from VERIF_SEED (corpus/floor first); '
             'non-trivial = a batcher is present and at least 6 parts were received; distinct by scenario text',
        explanation='Batcher invariant (an emitted batch has exactly output_batch_size parts in arrival order, unbatching emits members one by one in order, in-progress batch never exceeds the size) '
                    'for every reachable state; tie = lock-step on batch contents after every event.',
        assumptions=['well-posed layouts', 'output_batch_size None or >= 1']),
    'C03': dict(
        vfile='Props/C03.v', ties=['Tie/TieEnv.v', 'Tie/TieFloor.v'],
        families=[('floor', 400, 12000, 'small', 'large')],
        rule='F_floor scenarios: layered production lines (sources incl. cycle 0 and finite budgets, handlers, processors with resources/callbacks/work orders, buffers with delay and capacity, batchers, decision gates, flow controllers, shared groups reached through several paths incl. nested and re-entrant use, sinks), scripted failures/shutdowns/restores/blocking/capacity changes/budget adjustments/one-shot offsets/mid-run rewiring/devices constructed mid-run with upstream devices named in the constructor, many single steps then runs, generated from VERIF_SEED (corpus/floor first); '
             'non-trivial = at least 8 parts received by devices and 3 supplied by sources; distinct by scenario text',
        explanation='Local wake-up theorems (refused hand-over sets the waiting flag and was refused by every neighbour; a signalled waiting device schedules an attempt now; restore/unblock/budget raise end in a signal). Queue-level invariant for every state reached without an exception, incl. inside a run: a device holding a ready part is flagged waiting or has its own PASS_PART event pending (unless shut down / budget used up) - no ready part is forgotten. The last global step "a flagged part would still be refused when time advances" is decided by the liveness monitor on the implementation and the lock-step. PARTIAL for that step and for termination.',
        assumptions=['well-posed layouts', 'mid-run rewiring: upstreams are replaced by devices of earlier stages (no cycles, no sinks / group devices as upstreams)', 'devices constructed mid-run: between two events (not from inside an event action), kinds with an upstream side outside groups', 'termination: harness step bound']),
    'C06': dict(
        vfile='Props/C06.v', ties=['Tie/TieEnv.v', 'Tie/TieFloor.v'],
        families=[('floor', 400, 12000, 'small', 'large')],
        rule='F_floor scenarios: layered production lines (sources incl. cycle 0 and finite budgets, handlers, processors with resources/callbacks/work orders, buffers with delay and capacity, batchers, decision gates, flow controllers, shared groups reached through several paths incl. nested and re-entrant use, sinks), scripted failures/shutdowns/restores/blocking/capacity changes/budget adjustments/one-shot offsets/mid-run rewiring/devices constructed mid-run with upstream devices named in the constructor, many single steps then runs, generated from VERIF_SEED (corpus/floor first); '
             'non-trivial = a failure or a pause happened and at least 2 parts were produced; distinct by scenario text',
        explanation='Timer and interruption lemmas (timer = accept time + max(0, cycle + one-shot offset), offset consumed, FINISH needs exactly its part, shutdown pauses / failure cancels, C07 remaining delay). Queue-level invariant for every exception-free reachable state incl. inside runs: a handler/processor/sink has exactly one uncancelled FINISH_PROCESSING event of its own (pending or paused) while a part is in process and none otherwise - no part without timer, no stale timer after a failure (D4), nothing finished twice. The arithmetic composition "released after exactly the cycle time of operational time" over a run is decided by the cycle-time monitor and the lock-step. PARTIAL for that composition.',

        assumptions=['well-posed layouts', 'cycle times on the 1/8 grid']),
    'C08': dict(
        vfile='Props/C08.v', ties=['Tie/TieEnv.v', 'Tie/TieFloor.v'],
        families=[('floor', 400, 12000, 'small', 'large'), ('value', 100, 3000, 'small', 'large')],
        rule='F_floor scenarios: layered production lines (sources incl. cycle 0 and finite budgets, handlers, processors with resources/callbacks/work orders, buffers with delay and capacity, batchers, decision gates, flow controllers, shared groups reached through several paths incl. nested and re-entrant use, sinks), scripted failures/shutdowns/restores/blocking/capacity changes/budget adjustments/one-shot offsets/mid-run rewiring/devices constructed mid-run with upstream devices named in the constructor, many single steps then runs, generated from VERIF_SEED (corpus/floor first); '
             'non-trivial = a gate or group path is present and at least 6 parts were received; distinct by scenario text',
        explanation='Local routing theorems (offers go to exactly the configured downstream neighbours, longest idle first; gates and blocked inputs refuse; history extended by the accepting device; identities preserved); and, for every exception-free history incl. every state inside a run, a handler/processor/sink that reports a waiting-for-part time (the sort key) holds nothing in either slot (Proofs/FloorWait.v, premise: the initialised world passes the computable wait_okb). and, in every reachable state of every well-formed scenario, the routing history of every part ends with the device that holds it (Proofs/FloorHist.v: with the extension lemma, histories grow by exactly the traversed devices). Group path matching (leave through the entering path) and the arrival order over a whole run are decided by the routing monitor and lock-step. PARTIAL.',
        assumptions=['well-posed layouts', 'groups nested one level deep at most']),
    'C11': dict(
        vfile='Props/C11.v', ties=['Tie/TieEnv.v', 'Tie/TieFloor.v', 'Tie/TieRM.v'],
        families=[('floor', 400, 12000, 'small', 'large')],
        rule='F_floor scenarios: layered production lines (sources incl. cycle 0 and finite budgets, handlers, processors with resources/callbacks/work orders, buffers with delay and capacity, batchers, decision gates, flow controllers, shared groups reached through several paths incl. nested and re-entrant use, sinks), scripted failures/shutdowns/restores/blocking/capacity changes/budget adjustments/one-shot offsets/mid-run rewiring/devices constructed mid-run with upstream devices named in the constructor, many single steps then runs, generated from VERIF_SEED (corpus/floor first); '
             'non-trivial = a processor declares resources and at least 4 resource records were written; distinct by scenario text',
        explanation='World-level invariant proved for every reachable state (every event, any weights): pool usage = sum of declared requirements of holding devices, each holder holds exactly its declaration, no sharing; acceptance needs the reservation; failure releases; shutdown keeps. Queue-level link invariant proved for every state reached without an exception, including every state inside a run: a holder without a part in process has its own uncancelled RELEASE event pending at the current instant (or paused with the shut-down device), hence no idle operational processor holds resources when time advances (C11_idle_holds_nothing).',
        assumptions=['well-posed layouts', 'requests with distinct resource names']),
    'C15': dict(
        vfile='Props/C15.v', ties=['Tie/TieEnv.v', 'Tie/TieFloor.v', 'Tie/TieRM.v', 'Tie/TieMaint.v'],
        families=[('floor', 400, 12000, 'small', 'large'), ('maint', 300, 6000, 'small', 'large')],
        rule='F_floor scenarios: layered production lines (sources incl. cycle 0 and finite budgets, handlers, processors with resources/callbacks/work orders, buffers with delay and capacity, batchers, decision gates, flow controllers, shared groups reached through several paths incl. nested and re-entrant use, sinks), scripted failures/shutdowns/restores/blocking/capacity changes/budget adjustments/one-shot offsets/mid-run rewiring/devices constructed mid-run with upstream devices named in the constructor, many single steps then runs, generated from VERIF_SEED (corpus/floor first); '
             'non-trivial = at least 8 parts received and 3 supplied; distinct by scenario text',
        explanation='Records only appended; each record carries the state of its moment; level record = level; resource record = pool. Device/data-log link invariant for every exception-free reachable state incl. inside runs: source produced counter = number of its supplied-part records, last level record of a buffer = its level, the received value of a sink = the sum of the values in its received-part records, one received-part record per acceptance for every device (resource-manager and maintainer records proved to carry other labels). Exactly-one-record-per-occurrence for the other kinds, the part counter of a sink (parts vs hand-overs) and last-resource-record = pool over runs are decided by the record monitor and the lock-step on the full data log. PARTIAL for those.',
        assumptions=['well-posed layouts', 'the event trace (trace=True) is not part of the Coq model: it is checked on the implementation by the monitor (events taken off the queue while tracing vs. trace entries and exported file)']),
    'C20': dict(
        vfile='Props/C20.v', ties=['Tie/TieEnv.v', 'Tie/TieSys.v', 'Tie/TieFloor.v'],
        families=[('sys', 800, 20000, 'small', 'large'), ('late', 120, 3000, 'small', 'large')],
        rule='F_sys scenarios: system creations, asset creations of every registered kind (sources, handlers, processors, buffers, gates, batchers, sinks, maintainers, schedulers, sensors; transitory parts) '
             'before the first run, between runs and from inside an event, simulate calls on active and superseded systems, explicit add_asset of assets of other systems, look-ups with every filter combination; '
             'plus a twin experiment per scenario (line / buffer / maintainer / scheduler / sensor model created late vs. before the start), generated from VERIF_SEED (corpus/sys first); '
             'and F_late: F_floor scenarios in which a sink / handler / processor / buffer / flow controller is constructed between two events with blocked upstream devices named in its constructor (full lock-step with the floor model); '
             'non-trivial = an asset was created while its system was already running and a simulate succeeded; distinct by scenario text',
        explanation='Registry invariant and operation theorems for every operation sequence; late creation = early creation operation for operation whenever registration is the last effect of creation '
                    '(kernel-checked on the regenerated class IR of every asset class); the original code violated this (coq/Findings/C20_refuted.v), repaired by a fix: commit; '
                    'tie = fact tables (class IR, metaclass IR, hierarchy, defaults) + lock-step on the real System/Asset classes + twin-behaviour monitor.',
        assumptions=['what initialize() and the constructors do is abstracted to the order of their attribute reads/writes and calls (tools/pyfacts.py IR)',
                     'Cms (takes another asset as argument) not generated by the lock-step']),
    'C14': dict(
        vfile='Props/C14.v', ties=['Tie/TieEnv.v', 'Tie/TieSys.v'],
        families=[('repro', 250, 6000, 'small', 'large')],
        rule='F_repro scenarios: F_floor production lines (merge topologies where tie-breaks decide outcomes, faults, buffers, gates, resources, maintenance), each run in lock-step with the model and then '
             'again after the asset-id counter advanced (offsets 1/3/10), twice with the real generator after random.seed, split (every run(d) as run(d//2); run(d - d//2) with the tie-break choices held fixed) '
             'and, for a sample, through System.simulate_multiple_times with max_processes 0 and 2; generated from VERIF_SEED; '
             'non-trivial = at least 6 parts received and the split variant ran; distinct by scenario text',
        explanation='Event-system theorems (same weights => same evolution; order-preserving renumbering of asset ids commutes with insertion/pause/unpause/cancel; run() markers only stop the loop) + lock-step with the '
                    'pure model at varying id offsets; the split and multi-process clauses are decided on the implementation by the reproducibility monitor. PARTIAL.',
        assumptions=['worker processes: fork start method of this platform', 'the split comparison ignores event creation numbers (the extra marker event shifts them)']),
    'C04': dict(
        vfile='Props/C04.v', ties=['Tie/TieEnv.v', 'Tie/TieFloor.v'],
        families=[('line', 500, 15000, 'small', 'large'), ('floor', 100, 3000, 'small', 'large')],
        rule='F_line scenarios: serial lines source -> 1..8 stations (handlers, processors, buffers with capacity 1..5/unbounded and delays incl. 0) -> sink, cycle times incl. 0 on a 1/8 grid and a 1-tick grid, '
             'source budgets, horizons 40..800, single steps and split runs, three weight sources; generated from VERIF_SEED; '
             'non-trivial = at least 6 parts received with a buffer in the line, or at least 10 parts received; distinct by scenario text',
        explanation='The recurrence is an executable Coq function with proved characterisation (least table under service/order/blocking constraints, monotone); every run checks the three-way agreement '
                    'implementation = floor model (lock-step) and implementation entry times = recurrence evaluated by the extracted Coq function = independent Python reading of the property text. PARTIAL: model-follows-recurrence is not a theorem.',
        assumptions=['constant parameters, no failures (the class of lines the property names)', 'only the first 60 parts of a line are compared with the Coq-evaluated table']),
}

LEVELS = {
    'C01': dict(
        text='Machine-checked Coq theorems (induction over all reachable states of the generic event-system model, any action behaviour, '
             'any tie-break weights): sorted queue, minimum dispatched, monotone clock, past scheduling rejected, at-most-once, run post-condition; '
             'model tied to /repo by regenerated fact tables (kernel-checked equalities) and lock-step comparison of the full environment state after every call.',
        design_ref='DESIGN.md sections 0.3 and 8, C01', technique='Coq proof (invariant by induction over reachability) + lock-step correspondence with the real Environment',
        note='Trusted: Coq kernel, pyfacts.py, extraction (ExtrOcamlBasic) + OCaml driver, Python harness. Not covered: re-entrant step()/run() from inside actions, NaN/off-grid times.'),
    'C07': dict(
        text='Machine-checked Coq theorems characterising pause/unpause/cancel on an arbitrary environment state (exact queue/paused contents, remaining delay equation, '
             'idempotence, cancelled-never-runs over all continuations; over whole steps: a pending event loses exactly the elapsed time, a paused one loses nothing, an event is dispatched when its remaining delay reaches zero - Proofs/EnvRem.v; over any history of events, calls and runs an event fires after exactly its delay of time spent pending, Proofs/EnvOpTime.v); tied to /repo by fact tables and lock-step correspondence.',
        design_ref='DESIGN.md sections 0.3 and 8, C07', technique='Coq proof (operation characterisations + invariant over all continuations) + lock-step correspondence',
        note='Trusted: as C01. asset_id=None no-op calls not modelled.'),
    'C09': dict(
        text='Machine-checked Coq theorems on the model of resource_manager.py: pool invariant (usage = sum of outstanding reservations >= 0, capacity >= 0) '
             'preserved by every operation, operation sequence and availability check; exact specifications of reserve / release / merge / add; '
             'an operation that raises changes nothing; no over-commitment without an explicit capacity reduction. Three clauses were false of the original code '
             '(coq/Findings/C09_refuted.v) and were repaired by fix: commits.',
        design_ref='DESIGN.md sections 0.3 and 8, C09', technique='Coq proof (state-machine invariant + operation specifications) + lock-step correspondence with ResourceManager',
        note='Trusted: Coq kernel, pyfacts.py, extraction + OCaml driver, Python harness. Names are integers, amounts on the 1/8 grid.'),
    'C10': dict(
        text='Machine-checked Coq theorems: the availability scan invokes a callback only when the request fits at that moment, never twice for one registration, '
             'in registration order, and leaves nothing feasible waiting unless a further check is scheduled now; lifted to the manager+queue system: '
             'invariant preserved by every event/external call, so no feasible request waits when the clock advances.',
        design_ref='DESIGN.md sections 0.3 and 8, C10', technique='Coq proof (loop invariants of the scan + system invariant over the event queue) + lock-step correspondence',
        note='Trusted: Coq kernel, pyfacts.py, extraction + OCaml driver, Python harness. Callback bodies range over all scripted operation lists.'),
    'C12': dict(
        text='Machine-checked Coq theorems: create_work_order returns exactly non-duplication; the scan starts orders in request order skipping only unfit/busy ones; '
             'capacity in use = sum of orders in progress <= capacity; one order per target; nothing startable is left waiting after any operation; '
             'cost once, FINISH_WORK at start+duration, hooks once per event; system invariant: exactly one live event per order in progress.',
        design_ref='DESIGN.md sections 0.3 and 8, C12', technique='Coq proof (state-machine invariant + system invariant over the event queue) + lock-step correspondence with Maintainer',
        note='Trusted: Coq kernel, pyfacts.py, extraction + OCaml driver, Python harness.'),
    'C18': dict(
        text='Machine-checked Coq theorems: registration dictionary semantics; at every state change exactly one action call per registered object in registration order with the right arguments; '
             'k-th change at t0 + sum of the first k durations with state k-1 (mod n when cyclic), period = total duration, non-cyclic schedules stop in their last state; '
             'system invariant over the event queue (one pending transition at the prescribed time).',
        design_ref='DESIGN.md sections 0.3 and 8, C18', technique='Coq proof (induction over state changes + system invariant) + lock-step correspondence with ActionScheduler',
        note='Trusted: Coq kernel, pyfacts.py, extraction + OCaml driver, Python harness.'),
    'C19': dict(
        text='Machine-checked Coq theorems: every probe series and the time series hold exactly the most recent min(count, capacity) entries and stay aligned; '
             'each measurement stores the probed values and calls every callback once in registration order; output-part sensor measures part 1, n+2, 2n+3, ...; '
             'Cms.add_sensor idempotent; one pending periodic measurement, the k-th due k intervals after the start. The series are aligned also in the state the on-sense callbacks see (C19_periodic_aligned_at_notification). '
             'The alignment clause was false of the original code twice (coq/Findings/C19_refuted.v: D3 never trimmed, D11 trimmed after the callbacks), repaired by fix: commits c95a3db and 92eafab.',
        design_ref='DESIGN.md sections 0.3 and 8, C19', technique='Coq proof (suffix invariant, counter arithmetic, system invariant) + lock-step correspondence with the sensor classes',
        note='Trusted: Coq kernel, pyfacts.py, extraction + OCaml driver, Python harness.'),
    'C02': dict(
        text='Machine-checked Coq theorem: in every state reachable by any well-formed scenario (initialisation, calls, user events, steps, runs, any tie-break weights), for every part identity, '
             'times generated = times inside a device + times delivered to a sink + times lost to a failure, and no identity is generated twice (C02_conservation_always), proved through the recursive hand-over (give/accept), '
             'the frame of the offering phase and census-neutrality of all other steps; plus the single-slot invariant, the guards of every device change, and the budget clause: a source\'s supplied-parts counter never exceeds its budget under any schedule of adjustments (C02_supplied_within_budget).',
        design_ref='DESIGN.md sections 0.3 and 8, C02', technique='Coq proof (per-device invariants over guarded transformers, induction over events) + lock-step correspondence + census monitor',
        note='The ghost lists made/delivered/lost live in the model only (never read by it). Trusted: Coq kernel, pyfacts.py, extraction + OCaml driver, Python harness.'),
    'C05': dict(
        text='Machine-checked Coq theorems: buffer level = number stored <= capacity, entry times sorted (FIFO), a part leaves only from the head and only after its minimum delay, '
             'for every reachable state of every layout/event order; tied by fact tables and lock-step.',
        design_ref='DESIGN.md sections 0.3 and 8, C05', technique='Coq proof (buffer invariant, stable under all guarded transformers; FIFO relation over every event) + lock-step correspondence with Buffer',
        note='Trusted: Coq kernel, pyfacts.py, extraction + OCaml driver, Python harness.'),
    'C13': dict(
        text='Machine-checked Coq theorems on the processor state machine: shut-down refuses/keeps, failure effect, idempotent shutdown/restore, clock invariant, '
             'uptime/utilisation unchanged by event actions and growing exactly with operational / processing time; a processor constructed while the simulation is in progress starts both clocks at its construction (C13_late_processor_clocks_start_at_creation). One clause was false of the original code (C13_refuted.v), repaired (fix: f79706b).',
        design_ref='DESIGN.md sections 0.3 and 8, C13', technique='Coq proof (state-machine lemmas + two-sided accounting invariant over all events and time advances) + lock-step correspondence with PartProcessor',
        note='Trusted: Coq kernel, pyfacts.py, extraction + OCaml driver, Python harness. Work-order window relies on C12 theorems.'),
    'C16': dict(
        text='Machine-checked Coq theorems: value added exactly once per acceptance, generator value on new parts, sink accumulates received values, maintenance cost charged once at start; tied by lock-step on all values.',
        design_ref='DESIGN.md sections 0.3 and 8, C16', technique='Coq proof (value lemmas over guarded transformers) + lock-step correspondence',
        note='Partial for end-to-end sums across a whole route (follows from per-acceptance lemmas + lock-step; not a single theorem).'),
    'C17': dict(
        text='Machine-checked Coq theorems: batch invariant for every reachable state (in-progress batch below the size, emitted batches full and in arrival order; unbatching in order).',
        design_ref='DESIGN.md sections 0.3 and 8, C17', technique='Coq proof (batcher invariant stable under all guarded transformers) + lock-step correspondence with PartBatcher',
        note='Trusted: Coq kernel, pyfacts.py, extraction + OCaml driver, Python harness.'),
    'C03': dict(
        text='PARTIAL. Machine-checked: the local wake-up rules of the floor model (waiting flag after a refusal by every neighbour, attempt scheduled at the same instant on every signal, signals after restore/unblock/budget raise; availability checks after resource changes via C10), and the queue-level invariant "no ready part is forgotten" for every exception-free reachable state including every state inside a run (flagged waiting, or own PASS_PART event pending, or shut down / budget used up). That a flagged part would still be refused whenever time advances, and run termination, are decided by the liveness monitor on the implementation plus lock-step.',
        design_ref='DESIGN.md sections 0.3 and 8, C03', technique='Coq proof (wake-up lemmas; device/event-queue link invariant over a two-level step decomposition with compound steps) + lock-step correspondence + liveness monitor at every clock advance',
        note='Partial: stability of refusals between signals and termination are not theorems.'),
    'C06': dict(
        text='PARTIAL. Machine-checked: timer = accept time + max(0, cycle + offset) under the device id, offset one-shot, FINISH requires exactly the part in process on an operational device, shutdown pauses / failure cancels (also during a shutdown: repaired defect D4), resumed events keep remaining delay and cancelled events never run (C07); and the queue-level invariant for every exception-free reachable state including every state inside a run: exactly one live FINISH_PROCESSING event per part in process (pending or paused), none otherwise; over whole steps the remaining time of a pending timer decreases by exactly the elapsed time, a paused timer loses nothing, and a timer fires when its remaining time reaches zero (Proofs/EnvRem.v); composed over whole histories: a timer with r left fires after exactly r of time in which it was not paused, whatever happens in between (Proofs/EnvOpTime.v, FloorOpTime.v). That the timer is paused exactly while the processor is shut down, and the whole-run exact-timing arithmetic is decided by the cycle-time monitor + lock-step.',
        design_ref='DESIGN.md sections 0.3 and 8, C06', technique='Coq proof (timer and interruption lemmas + C07 event-queue theorems + device/event-queue count invariant over a step decomposition with local blocks) + lock-step correspondence + cycle-time monitor',
        note='Partial: the arithmetic composition over a run is not a single theorem; sources are outside the count invariant (their cycle timer is covered by the local lemmas and the monitor).'),
    'C08': dict(
        text='PARTIAL. Machine-checked: offers go to a permutation of the configured downstream list sorted by idle-since time; gates/blocked inputs refuse without any change; accepted part history = offered history ++ [device]; identities never rewritten; a device reporting a waiting-for-part time has both slots empty in every exception-free reachable state (the invariant restored by the D9 repair; carried by the strict steps of FloorTimer.v); the routing history of every held part ends with its holder in every reachable state (FloorHist.v, a fifth step decomposition). Group-path matching and whole-run statements decided by the routing monitor + lock-step.',
        design_ref='DESIGN.md sections 0.3 and 8, C08', technique='Coq proof (routing lemmas: permutation + sortedness of the offer order, refusal guards; waiting-stamp invariant by induction over fine-grained reachability) + lock-step correspondence + routing monitor',
        note='Partial: group-path matching (a part leaves a group through the path it entered) and the route as a whole (a ghost list of traversed devices) are not theorems; last-entry = holder and one-step extension are.'),
    'C11': dict(
        text='Machine-checked world-level invariant (pools, reservation objects and device holdings agree) preserved by every world step, event, call and system step; exact holdings; no sharing; acceptance needs the reservation; failure releases; shutdown keeps. Machine-checked queue-level link invariant (Proofs/FloorLink.v, FloorIdle.v): in every state reached without an exception, a holder with no part in process owns an uncancelled RELEASE event pending now (or paused while it is shut down); so whenever time advances no idle operational processor holds resources.',
        design_ref='DESIGN.md sections 0.3 and 8, C11', technique='Coq proof (world-level invariant over labelled world steps, using the C09 operation specifications; device/event-queue link invariant over a second step decomposition with compound steps) + lock-step correspondence + resource monitor',
        note='The idle clause is proved for exception-free histories (every driver status 0); after a Python exception the state is whatever the aborted action left and only the world-level invariant is claimed. Initial-state establishment from a decidable predicate validated by lock-step.'),
    'C15': dict(
        text='PARTIAL. Machine-checked: the record list only grows during an action; receive/level/failure/resource records carry the state of their moment; level = stored parts; and the device/data-log link invariant for every exception-free reachable state including every state inside a run: a source counter equals the number of its supplied-part records, the last level record of a buffer carries its level, the received-value counter of a sink equals the sum of the values carried by its received-part records, every device has exactly one received-part record per item it has taken in (ghost accept counter). The other exactly-one-record-per-occurrence clauses, the part counter of a sink and last-resource-record = pool are decided by the record monitor and lock-step over the full data log after every event.',
        design_ref='DESIGN.md sections 0.3 and 8, C15', technique='Coq proof (append-only log over all world steps, record payload lemmas, device/data-log link invariant over a step decomposition with counter+record compound steps) + lock-step correspondence on the full data log + record monitor',
        note='Partial: produced/failure/work-order record counts, the sink part counter and resource records over runs are not theorems.'),
    'C20': dict(
        text='Machine-checked Coq theorems: registry invariant for every operation sequence (registered with the most recently created system only, initialised at most once, first simulate initialises every registered asset exactly once, '
             'continuing never re-initialises, only the latest system simulates, look-up = filter by all given criteria); late creation equals early creation operation for operation for every class whose creation ends with the registration, '
             'and that condition is kernel-checked on the class IR regenerated from /repo on every run. The original code violated it (C20_refuted.v), repaired by fix: 5b382da.',
        design_ref='DESIGN.md sections 0.3 and 8, C20', technique='Coq proof (registry state-machine invariant; trace equality of late vs early creation over the regenerated class IR) + lock-step correspondence with System/Asset + twin-behaviour monitor',
        note='Trusted: Coq kernel, pyfacts.py (statement IR of constructors/initialisers), extraction + OCaml driver, Python harness. Behaviour inside initialize() is abstracted to its operation sequence; the twin monitor compares real behaviour.'),
    'C14': dict(
        text='Machine-checked on the event-system model, for every action behaviour: same weights => same evolution; the evolution does not depend on the numbering of events; '
             'order-preserving renumbering of asset ids commutes with every queue operation; the marker event of run() is transparent; and from these the RUN-SPLIT THEOREM: '
             'running for a then b ends in the same world, clock, data and pending/paused events as running once for a+b when the second run hands the remaining events the same weights (C14_run_split). '
             'PARTIAL only for worker processes (multi-process clause), decided by the reproducibility monitor (rerun / seeded / split / multi-process variants) plus lock-step against the pure model. The run-split theorem is instantiated for the whole floor system: every environment call of a floor action is proved well-formed (C14_floor_calls_well_formed, C14_floor_run_split).',
        design_ref='DESIGN.md sections 0.3 and 8, C14', technique='Coq proof (weight extensionality, numbering independence, renaming equivariance, marker transparency, run-split by simulation) + lock-step correspondence at varying id offsets + differential reruns of the implementation',
        note='Partial: process-level behaviour is not a theorem (a Coq model cannot exhibit worker processes). Run-split hypotheses: pending events above the terminate priority, actions never pause/cancel id -1.'),
    'C04': dict(
        text='PARTIAL. Machine-checked: the reference recurrence (Model/Line.v) is the tight solution of the service / order / blocking constraints and is monotone in the part number and along the line. '
             'Not a theorem: that the floor model follows the recurrence (whole-run timing). Decided on every run by three-way agreement on generated serial lines: implementation = floor model in lock-step, '
             'and recorded entry times = the recurrence evaluated by the extracted Coq function = the monitor\'s independent computation.',
        design_ref='DESIGN.md sections 0.3 and 8, C04', technique='Coq proof (characterisation of the recurrence) + lock-step correspondence + differential check of recorded entry times against the Coq-evaluated recurrence',
        note='Partial: the equality simulator = recurrence is validated (differential), not proved.'),
}

NOT_APPLICABLE = [
    dict(property_id=p, reason='check under construction in this round (model layer not yet built); see DESIGN.md section 12 build order')
    for p in []
]
