"""Family F_value (C16): F_floor scenarios in lock-step with the model, plus value experiments on the implementation
that the floor model does not cover: batches nested inside batches (custom part generators) and the system's net value."""
import contextlib
import io
from collections import Counter
from . import common
from . import fam_floor
from .floor_gen import gen as floor_gen

FAMILY = 6
NAME = 'value'
Discard = fam_floor.Discard
TooLong = fam_floor.TooLong
encode = fam_floor.encode


def gen(rng, size='small'):
    sc = floor_gen(rng, 'small' if size == 'small' else 'large', focus=rng.choice(['plain', 'batches', 'batches', 'maint', 'faults']))
    sc['nested'] = dict(shape=rng.choice([[2, 1], [1, 1, 1], [3], [2, 2], [0, 2]]), values=[rng.choice([0, 4, 8, 20]) for _ in range(6)],
                        c1=rng.choice([4, 8]), c2=rng.choice([0, 4, 12]), d=rng.choice([40, 64]))
    return sc


def _leaf_sum(W_Batch, it):
    if isinstance(it, W_Batch):
        return sum(_leaf_sum(W_Batch, p) for p in it.parts)
    return it.value


def _leaf_hists(W_Batch, it):
    if isinstance(it, W_Batch):
        return [h for p in it.parts for h in _leaf_hists(W_Batch, p)] + [[d.name for d in it.routing_history]]
    return [[d.name for d in it.routing_history]]


def run_nested(n):
    from simprocesd.model import System
    from simprocesd.model.factory_floor import Source, Sink, Buffer, PartProcessor, Part, Batch, PartGenerator
    T = common.TICK
    vals = n['values']

    class NestedGen(PartGenerator):
        def generate_part_helper(self, part_name, part_counter):
            k = [0]

            def val():
                k[0] += 1
                return vals[(part_counter + k[0]) % len(vals)] / T
            groups = []
            for size in n['shape']:
                if size == 0:
                    groups.append(Part(value=val()))
                else:
                    groups.append(Batch(parts=[Part(value=val()) for _ in range(size)]))
            return Batch(parts=groups)
    with contextlib.redirect_stdout(io.StringIO()):
        system = System()
        src = Source('src', NestedGen('p'), cycle_time=n['c1'] / T)
        buf = Buffer('buf', upstream=[src], capacity=12)
        mid = PartProcessor('m', upstream=[buf], cycle_time=n['c2'] / T)
        snk = Sink('snk', upstream=[mid], collect_parts=True)
        # names need not be unique: two further assets that share one, each worth something
        from simprocesd.model.factory_floor import Asset, Maintainer
        Asset('spare', value=vals[0] / T + 1)
        Asset('spare', value=vals[-1] / T + 2)
        m1, m2 = Maintainer(), Maintainer()          # (both get the library's default name)
        # one asset of every class that takes a starting value (a purchase cost, say): it is where the value history starts
        from simprocesd.model.factory_floor import PartHandler, PartFlowController, PartBatcher
        from simprocesd.model.sensors import Sensor, PeriodicSensor, OutputPartSensor, AttributeProbe
        from simprocesd.model.cms import Cms
        sv = -(10 + vals[0] % 7)
        started = [
            (Asset('a0', value=sv), sv), (PartHandler('h0', value=sv - 1), sv - 1), (PartFlowController('f0', value=sv - 2), sv - 2),
            (PartBatcher('b0', value=sv - 3, output_batch_size=2), sv - 3), (Buffer('u0', capacity=1, value=sv - 4), sv - 4),
            (PartProcessor('p0', value=sv - 5), sv - 5), (Maintainer('mt0', value=sv - 6), sv - 6), (Cms(None, 'c0', value=sv - 7), sv - 7),
            (Sensor([AttributeProbe('value', mid)], 's0', value=sv - 8), sv - 8),
            (PeriodicSensor(2.5, [AttributeProbe('value', mid)], 's1', value=sv - 9), sv - 9),
            (OutputPartSensor(mid, [AttributeProbe('value', None)], 1, 's2', value=sv - 10), sv - 10)]
        # the run is split in two; further assets are created between the halves (simulation in progress) and from a receive
        # callback of the sink: the net value of the system counts them like every other registered asset
        late = []

        def on_first(*_a):
            if not late:
                late.append(Asset('late_cb', value=vals[1] / T + 9))
                late.append(Maintainer('late_mt', value=-(3 + vals[2] / T)))
        snk.add_receive_part_callback(on_first)
        d1 = (n['d'] // 2) / T
        system.simulate(d1, print_summary=False)
        late.append(Asset('late', value=vals[0] / T + 7))
        late.append(Sink('late_snk', upstream=[mid]))
        late.append(PartProcessor('late_p', value=13))
        system.simulate(n['d'] / T - d1, print_summary=False)
        m1.add_cost('tools', 3)
        m2.add_cost('tools', 5)
        late[-1].add_value('sold', 2)
    built = [src, buf, mid, snk, m1, m2] + [a for a, _ in started] + late + system.find_assets(name='spare')
    items = list(snk.collected_parts)
    res = dict(items=[(common.to_ticks(it.value), common.to_ticks(_leaf_sum(Batch, it))) for it in items],
               inner=[(common.to_ticks(p.value), common.to_ticks(_leaf_sum(Batch, p))) for it in items for p in it.parts if isinstance(p, Batch)],
               sink_value=common.to_ticks(snk.value), sink_received=common.to_ticks(snk.value_of_received_parts),
               src_value=common.to_ticks(src.value), src_cost=common.to_ticks(src.cost_of_produced_parts),
               produced=src.produced_parts,
               net=common.to_ticks(system.get_net_value_of_assets()),
               sum_assets=common.to_ticks(sum(a.value for a in system._assets)),
               sum_built=common.to_ticks(sum(a.value for a in built)), n_built=len(built), n_registered=len(system._assets),
               late_found=[len(system.find_assets(name=a.name)) for a in late],
               hists=[h for it in items for h in _leaf_hists(Batch, it)],
               level=buf.level(), stored=sum(len(b.parts) if isinstance(b, Batch) else 1 for b in buf.stored_parts),
               started=[(type(a).__name__, common.to_ticks(a.value), common.to_ticks(v0), common.to_ticks(sum(h[2] for h in a.value_history))) for a, v0 in started])
    return res


def run_impl(sc):
    flat, obs = fam_floor.run_impl(sc)
    if obs and sc.get('nested'):
        obs[-1]['nested'] = run_nested(sc['nested'])
    return flat, obs


def monitor_c16(sc, obs):
    from .floor_monitors import monitor_c16 as base
    v = base(sc, obs)

    def bad(sig, what):
        v.append(dict(sig=sig, what=what))
    if not obs or 'nested' not in obs[-1]:
        return v
    r = obs[-1]['nested']
    for val, leaves in r['items'] + r['inner']:
        if val != leaves:
            bad('C16/batch-value', 'a batch (of batches) is worth %d/8 but its parts sum to %d/8' % (val, leaves))
            break
    tot = sum(leaves for _, leaves in r['items'])
    if r['sink_value'] != tot or r['sink_received'] != tot:
        bad('C16/sink-value', 'nested batches: the sink is worth %d/8 (received value %d/8), the parts it received sum to %d/8' % (r['sink_value'], r['sink_received'], tot))
    if r['src_value'] != -r['src_cost']:
        bad('C16/source-value', 'nested batches: the source is worth %d/8, the cost of the parts it supplied is %d/8' % (r['src_value'], r['src_cost']))
    for cls, val, v0, changes in r.get('started', []):
        if val != v0 + changes:
            bad('C16/starting-value', 'a %s created with starting value %d/8 is worth %d/8, its value history adds up to %d/8' % (cls, v0, val, changes))
            break
    if r['net'] != r['sum_assets']:
        bad('C16/net-value', 'the system net value %d/8 is not the sum of the registered assets\' values %d/8' % (r['net'], r['sum_assets']))
    if 'sum_built' in r and (r['net'] != r['sum_built'] or r['n_built'] != r['n_registered'] or any(k != 1 for k in r['late_found'])):
        bad('C16/net-value-late', 'the system net value %d/8 is not the sum %d/8 of the values of the %d assets created (some of them while the simulation '
                                  'was in progress); %d are registered, look-ups of the late ones by name find %s' %
            (r['net'], r['sum_built'], r['n_built'], r['n_registered'], r['late_found']))
    return v


def _nested_history(prop, base_name):
    def mon(sc, obs):
        from . import floor_monitors
        v = getattr(floor_monitors, base_name)(sc, obs)
        if obs and 'nested' in obs[-1]:
            want = ['src', 'buf', 'm', 'snk']
            for h in obs[-1]['nested']['hists']:
                if h != want:
                    v.append(dict(sig=prop + '/nested-batch-history', what='a part (or batch) carried inside a batch of batches through src -> buf -> m -> snk '
                                                                          'has the routing history %s' % h))
                    break
        return v
    return mon


MONITORS = {'C16': monitor_c16, 'C08': _nested_history('C08', 'monitor_c08'), 'C17': _nested_history('C17', 'monitor_c17')}
stats = fam_floor.stats


def nontrivial(prop, sc, obs):
    if not obs or 'nested' not in obs[-1]:
        return False
    recs = Counter(r[0] for o in obs for r in o['data'])
    return recs[6] >= 6 and len(obs[-1]['nested']['items']) >= 2


shrink_candidates = fam_floor.shrink_candidates
locate = fam_floor.locate
