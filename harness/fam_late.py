"""Family F_late: the F_floor machinery (same model family, same lock-step) restricted to scenarios in which devices are constructed
while the simulation is in progress (floor_gen.gen_late).  Used by C20: an asset created mid-run behaves from then on like the same
asset created before the start — here: it is wired to its upstream devices, they are woken, its clocks start at its creation."""
from .fam_floor import *            # noqa: F401,F403
from .fam_floor import Discard, run_impl, encode, stats, shrink_candidates, locate, FAMILY      # noqa: F401
from .floor_gen import gen_late
from .floor_monitors import monitor_c03, monitor_c13

NAME = 'late'


def gen(rng, size='small'):
    return gen_late(rng, size)


def monitor_c20(sc, obs):
    v = []
    for f in (monitor_c03, monitor_c13):
        for x in f(sc, obs):
            v.append(dict(sig='C20/late-device:' + x['sig'], what='a device constructed while the simulation runs: ' + x['what']))
    return v


MONITORS = {'C20': monitor_c20}


def nontrivial(prop, sc, obs):
    """a late-constructed sink received parts"""
    if not obs:
        return False
    last = obs[-1]['devices']
    return any(k >= 1000 and e['kind'] == 6 and e['received'] > 0 for k, e in last.items())
