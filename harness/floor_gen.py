"""Scenario generator for family F_floor: layered well-posed production lines (DESIGN.md Appendix A)."""

GATE_DECIDERS = [[0, 0], [2, 8], [3, 8], [4, 16], [5, 16], [6, 0], [7, 0]]


def gen_mixed(rng, size):
    """A buffer fed with a mix of batches and single parts whose exits are blocked for a while and then released: several stored
    items of different sizes leave in one pass (C05/C17: level accounting per item, FIFO, batches counted by their parts)."""
    big = size != 'small'
    ents = []
    na = rng.choice([2, 3, 3])
    ents.append(dict(kind='source', cycle=rng.choice([4, 8, 8]), budget=rng.choice([None, 4, 6]), gen_value=8 * rng.choice([0, 1]), gen_quality=8, gen_batch=na))   # 1
    if rng.random() < 0.5:
        # one stream of single parts, batches of varying sizes and (sometimes) empty batches
        ents[0]['gen_pattern'] = [rng.choice([0, 1, 2, 3, 4, 5, -1]) for _ in range(rng.choice([2, 3, 4, 6]))]
    ents.append(dict(kind='source', cycle=rng.choice([4, 8, 12]), budget=rng.choice([None, 5, 8]), gen_value=8, gen_quality=4, gen_batch=0))                       # 2
    ents.append(dict(kind='buffer', up=[1, 2], min_delay=rng.choice([0, 0, 4, 8]), capacity=rng.choice([None, None, 6, 8, 12])))                                   # 3
    outs = []
    nxt = 4
    for _ in range(rng.choice([1, 2, 2])):
        r = rng.random()
        if r < 0.4:
            ents.append(dict(kind='sink', cycle=0, collect=True, up=[3]))
            outs.append(nxt)
            nxt += 1
        elif r < 0.65:
            # a batcher directly behind the buffer: it unpacks an accepted batch during the hand-over
            ents.append(dict(kind='batcher', batch_size=rng.choice([None, None, 2, 3, 1]), up=[3]))
            ents.append(dict(kind='sink', cycle=0, collect=rng.random() < 0.5, up=[nxt]))
            outs.append(nxt)
            nxt += 2
        else:
            ents.append(dict(kind=rng.choice(['handler', 'processor']), cycle=rng.choice([0, 4, 8]), up=[3]))
            ents.append(dict(kind='sink', cycle=0, collect=rng.random() < 0.5, up=[nxt]))
            outs.append(nxt)
            nxt += 2
    uops, ext = [], [['init']]
    for d in outs:
        t0 = rng.choice([0, 0, 8, 12])
        uops.append([['block', d, 1]])
        ext.append(['at', t0, len(uops) - 1, rng.choice([32, 184])])
        uops.append([['block', d, 0]])
        ext.append(['at', t0 + rng.choice([16, 24, 32, 40]), len(uops) - 1, rng.choice([32, 184, 152])])
    nsteps = rng.randint(30, 80) if not big else rng.randint(80, 200)
    ext += [['step']] * nsteps
    ext.append(['run', rng.choice([40, 80]) if not big else rng.choice([160, 320])])
    return dict(seed=rng.randint(0, 1000), mod=rng.choice([1, 3, 3, 1 << 20]), entities=ents, pools=[], uops=uops, ext=ext, focus='mixed')


def gen_parallel(rng, size):
    """Parallel single-slot lanes behind one supplier, some behind plain flow controllers, one lane's input blocked from the start and
    released later: which lane gets the next part depends on how long each has been idle (C08: longest idle first; a lane that has
    never had a part has been idle since time 0)."""
    big = size != 'small'
    ents = [dict(kind='source', cycle=rng.choice([4, 4, 8]), budget=rng.choice([None, 8, 12]), gen_value=8, gen_quality=8, gen_batch=0)]   # 1
    nid = 1
    lanes, heads = [], []
    for _ in range(rng.choice([2, 3, 3])):
        ups = [1]
        if rng.random() < 0.35:
            ents.append(dict(kind='pfc', up=[1]))
            nid += 1
            ups = [nid]
        ents.append(dict(kind=rng.choice(['handler', 'handler', 'processor']), cycle=rng.choice([4, 8, 12, 16]), up=ups))
        nid += 1
        lanes.append(nid)
    ents.append(dict(kind='sink', cycle=0, collect=True, up=list(lanes)))
    uops, ext = [], [['init']]
    d = rng.choice(lanes)
    uops.append([['block', d, 1]])
    ext.append(['at', 0, 0, 184])
    uops.append([['block', d, 0]])
    ext.append(['at', rng.choice([6, 10, 12, 14, 18, 20, 26, 28]), 1, rng.choice([32, 184, 152])])
    if rng.random() < 0.4:
        d2 = rng.choice(lanes)
        t0 = rng.choice([8, 16, 24])
        uops.append([['block', d2, 1]])
        ext.append(['at', t0, len(uops) - 1, 32])
        uops.append([['block', d2, 0]])
        ext.append(['at', t0 + rng.choice([4, 8, 12]), len(uops) - 1, 184])
    ext += [['step']] * (rng.randint(40, 90) if not big else rng.randint(90, 200))
    ext.append(['run', 40 if not big else 160])
    return dict(seed=rng.randint(0, 1000), mod=rng.choice([1, 3, 3, 1 << 20]), entities=ents, pools=[], uops=uops, ext=ext, focus='parallel')


def gen_late(rng, size):
    """Devices constructed while the simulation is in progress, wired through their constructors (`Device(upstream=[...])` between two
    events): a short line whose only exit is blocked, so finished parts wait flagged in the devices in front of it; then a new sink — or
    a new handler / processor / buffer / flow controller and, a little later, a sink behind it — is created with some of those devices
    as upstream (C03: a connection added mid-run wakes the waiting upstream at that instant; C20/C13: a device created late is initialised
    at its creation time)."""
    big = size != 'small'
    if rng.random() < 0.2:
        # a source with nothing behind it at all: its first part is ready long before the sink it will feed is constructed
        ents = [dict(kind='source', cycle=rng.choice([0, 4, 8]), budget=rng.choice([3, 6, None]), gen_value=8, gen_quality=8, gen_batch=0),
                dict(kind='sink', late=1, cycle=rng.choice([0, 0, 4]), collect=True, up=[1])]
        ext = [['init']] + [['step']] * rng.randint(1, 6) + [['late', 1001, 1]] + [['step']] * rng.randint(10, 40) + [['run', rng.choice([40, 80])]]
        return dict(seed=rng.randint(0, 1000), mod=rng.choice([1, 3, 1 << 20]), entities=ents, pools=[], uops=[], ext=ext, focus='late')
    ents = [dict(kind='source', cycle=rng.choice([4, 4, 8]), budget=rng.choice([None, 6, 10]), gen_value=8, gen_quality=8, gen_batch=0)]   # 1
    nid, mids = 1, []
    width = rng.choice([1, 1, 2])
    for _ in range(rng.choice([1, 1, 2])):
        cur = []
        ups = [nid] if not mids else list(mids[-1])
        for _ in range(width if not mids else 1):
            k = rng.choice(['handler', 'processor', 'processor', 'buffer'])
            e = dict(kind=k, up=list(ups))
            if k == 'buffer':
                e.update(min_delay=rng.choice([0, 0, 4]), capacity=rng.choice([1, 2, 3]))
            else:
                e['cycle'] = rng.choice([0, 4, 8, 12])
            ents.append(e)
            nid += 1
            cur.append(nid)
        mids.append(cur)
    last = list(mids[-1])
    ents.append(dict(kind='sink', cycle=rng.choice([0, 0, 4]), collect=True, up=list(last)))
    nid += 1
    sink = nid
    uops, ext = [[['block', sink, 1]]], [['init'], ['at', rng.choice([0, 0, 0, 8]), 0, 184]]
    if rng.random() < 0.4:
        uops.append([['block', sink, 0]])
        ext.append(['at', rng.choice([40, 56, 72]), 1, rng.choice([32, 184])])
    k1 = rng.choice(['sink', 'sink', 'sink', 'handler', 'processor', 'buffer', 'pfc'])
    pool = last + ([u for st in mids[:-1] for u in st] if rng.random() < 0.3 else [])
    ups1 = rng.sample(pool, min(len(pool), rng.choice([1, 1, 2])))
    e1 = dict(kind=k1, late=1, up=list(ups1))
    if k1 == 'sink':
        e1.update(cycle=rng.choice([0, 0, 4, 8]), collect=True)
    elif k1 == 'buffer':
        e1.update(min_delay=rng.choice([0, 4]), capacity=rng.choice([1, 2, None]))
    elif k1 in ('handler', 'processor'):
        e1['cycle'] = rng.choice([0, 4, 8])
        if k1 == 'processor' and rng.random() < 0.4:
            e1['on_finish'] = [['log', 1]]
    ents.append(e1)
    steps = lambda a, b: [['step']] * rng.randint(a, b)
    ext += steps(6, 30)
    ext.append(['late', 1001] + ups1)
    if k1 != 'sink':
        ents.append(dict(kind='sink', late=2, cycle=rng.choice([0, 0, 4]), collect=True, up=[1001]))
        ext += steps(0, 6)
        ext.append(['late', 1002, 1001])
        if k1 == 'processor' and rng.random() < 0.5:
            ext += steps(1, 8)
            ext.append(['now', ['shutdown', 1001]])
            ext += steps(1, 6)
            ext.append(['now', ['restore', 1001]])
    ext += steps(20, 60) if not big else steps(60, 160)
    ext.append(['run', rng.choice([40, 80]) if not big else rng.choice([160, 320])])
    return dict(seed=rng.randint(0, 1000), mod=rng.choice([1, 3, 3, 1 << 20]), entities=ents, pools=[], uops=uops, ext=ext, focus='late')


def gen_hugedelay(rng, size):
    """A buffer whose minimum delay is huge (2**28 time units, exact on the grid) with a blocked exit that is released one or two ticks
    before the second stored part is due: the overdue first part leaves, the second must stay — nothing may treat 'almost due' as due
    (C05: never before the minimum delay; the allowance is one rounding unit of the clock, not a relative tolerance)."""
    D = 1 << 31
    c = rng.choice([4, 8, 8, 16])
    n = rng.choice([2, 3])
    ents = [dict(kind='source', cycle=c, budget=n, gen_value=8, gen_quality=8, gen_batch=0),
            dict(kind='buffer', up=[1], min_delay=D, capacity=None),
            dict(kind='sink', cycle=0, collect=True, up=[2])]
    early = rng.choice([1, 1, 2, 5])
    t_unblock = 2 * c + D - early          # the second part arrives at 2c
    uops = [[['block', 3, 1]], [['block', 3, 0]]]
    ext = [['init'], ['at', 0, 0, 184], ['at', t_unblock, 1, rng.choice([32, 184])]]
    ext += [['step']] * rng.randint(8, 20)
    ext.append(['run', D + 8 * c])
    return dict(seed=rng.randint(0, 1000), mod=rng.choice([1, 3, 1 << 20]), entities=ents, pools=[], uops=uops, ext=ext, focus='hugedelay')


def gen_rescut(rng, size):
    """Two or three parallel processors holding units of one pool at the same time; the pool's capacity is cut below what is held (to
    zero, or to less) while they work and raised again later (C11: usage = what the holders hold, whatever the capacity does)."""
    k = rng.choice([2, 2, 3])
    amt = rng.choice([8, 8, 4, 16])
    ents = [dict(kind='source', cycle=rng.choice([4, 8]), budget=rng.choice([None, 8, 12]), gen_value=8, gen_quality=8, gen_batch=0)]
    procs = []
    for i in range(k):
        ents.append(dict(kind='processor', up=[1], cycle=rng.choice([16, 24, 32]) + 4 * i, req=[[0, amt]]))
        procs.append(2 + i)
    ents.append(dict(kind='sink', cycle=0, collect=False, up=list(procs)))
    cap = k * amt
    uops, ext = [], [['init']]
    t1 = rng.choice([12, 14, 16, 20])
    uops.append([['add_res', 0, -rng.choice([cap, cap, cap - amt // 2, cap + 8])]])
    ext.append(['at', t1, 0, rng.choice([32, 184])])
    uops.append([['add_res', 0, rng.choice([amt, cap, cap + amt])]])
    ext.append(['at', t1 + rng.choice([24, 40, 56]), 1, rng.choice([32, 184])])
    if rng.random() < 0.4:
        uops.append([['fail_at', rng.choice(procs), t1 + 4]])
        ext.append(['at', t1 + 2, len(uops) - 1, 32])
        uops.append([['restore', uops[-1][0][1]]])
        ext.append(['at', t1 + 20, len(uops) - 1, 32])
    ext += [['step']] * rng.randint(40, 80)
    ext.append(['run', rng.choice([80, 120])])
    return dict(seed=rng.randint(0, 1000), mod=rng.choice([1, 3, 1 << 20]), entities=ents, pools=[[0, cap]], uops=uops, ext=ext, focus='rescut')


def gen_emptybatch(rng, size):
    """A stream of batches of varying sizes with empty ones in between, unpacked (or re-batched) by a batcher whose exit is slow: an
    empty batch arrives while the batcher still holds parts of the previous one (C02/C17: a batcher takes new input only when it has
    nothing left to unpack and nothing waiting to leave — whatever the input is)."""
    pat = [rng.choice([2, 3, 4]), -1, rng.choice([0, 2, 3]), -1][:rng.choice([2, 3, 4])]
    ents = [dict(kind='source', cycle=rng.choice([0, 4, 4]), budget=rng.choice([4, 6, 8]), gen_value=8, gen_quality=8, gen_batch=2, gen_pattern=pat),
            dict(kind='batcher', up=[1], batch_size=rng.choice([None, None, 2])),
            dict(kind=rng.choice(['handler', 'processor']), up=[2], cycle=rng.choice([8, 12, 16])),
            dict(kind='sink', cycle=0, collect=True, up=[3])]
    ext = [['init']] + [['step']] * rng.randint(30, 70) + [['run', rng.choice([80, 160])]]
    return dict(seed=rng.randint(0, 1000), mod=rng.choice([1, 3, 1 << 20]), entities=ents, pools=[], uops=[], ext=ext, focus='emptybatch')


def gen_regate(rng, size):
    """A decision gate in front of a shared machine that re-measures the quality of what it finishes, used by a line that passes the
    group twice with one part in the system at a time: the gate judges the same part twice, in different states (C08: a gate lets a
    part through only if its predicate accepts it — at that moment)."""
    q0 = rng.choice([8, 8, 12])
    ents = [dict(kind='source', cycle=rng.choice([24, 32, 40]), budget=rng.choice([2, 3, 4]), gen_value=8, gen_quality=q0, gen_batch=0),   # 1
            dict(kind='gate', decider=rng.choice([[2, 8], [3, 8]]), up=[]),                                                              # 2
            dict(kind=rng.choice(['processor', 'handler']), cycle=rng.choice([0, 4, 4]), up=[2]),                                         # 3
            dict(kind='group', gid=1, devices=[2, 3])]                                                                                   # 4, 5
    if ents[2]['kind'] == 'processor':
        ents[2]['on_finish'] = [['part_set_quality', rng.choice([0, 4, 16])]]
    else:
        ents[2]['on_receive'] = [['part_set_quality', rng.choice([0, 4, 16])]]
    ents.append(dict(kind='path', gid=1, up=[1]))                                   # 6
    ents.append(dict(kind='buffer', up=[6], min_delay=rng.choice([0, 4]), capacity=None))   # 7
    ents.append(dict(kind='path', gid=1, up=[7]))                                   # 8
    ents.append(dict(kind='sink', cycle=0, collect=True, up=[8]))                   # 9
    ext = [['init']] + [['step']] * rng.randint(30, 60) + [['run', rng.choice([80, 160])]]
    return dict(seed=rng.randint(0, 1000), mod=rng.choice([1, 3, 1 << 20]), entities=ents, pools=[], uops=[], ext=ext, focus='regate')


def gen(rng, size='small', focus=None):
    focus = focus or rng.choice(['plain', 'plain', 'faults', 'resources', 'buffers', 'batches', 'groups', 'gates', 'maint', 'rewire', 'mixed', 'parallel', 'late', 'hugedelay', 'rescut', 'regate', 'emptybatch'])
    if focus == 'emptybatch':
        return gen_emptybatch(rng, size)
    if focus == 'rescut':
        return gen_rescut(rng, size)
    if focus == 'regate':
        return gen_regate(rng, size)
    if focus == 'hugedelay':
        return gen_hugedelay(rng, size)
    if focus == 'late':
        return gen_late(rng, size)
    if focus == 'mixed':
        return gen_mixed(rng, size)
    if focus == 'parallel':
        return gen_parallel(rng, size)
    ents = []

    gate_ids = []

    def add(e):
        ents.append(e)
        r = ids_next(e)
        if e['kind'] == 'gate':
            gate_ids.append(r)
        return r

    counter = [0]

    def ids_next(e):
        if e['kind'] == 'group':
            counter[0] += 2
            return counter[0] - 1, counter[0]
        counter[0] += 1
        return counter[0]

    use_batches = focus == 'batches' or rng.random() < 0.1
    use_resources = focus == 'resources' or rng.random() < (0.45 if focus in ('faults', 'maint') else 0.2)
    use_maint = focus in ('maint', 'faults') or rng.random() < 0.2
    use_groups = focus == 'groups' or rng.random() < 0.12
    use_gates = focus == 'gates' or rng.random() < 0.15
    big = size != 'small'

    def cyc():
        return rng.choice([0, 4, 8, 8, 8, 12, 16, 24])

    maints = []
    if use_maint:
        for _ in range(rng.choice([1, 1, 2, 2])):
            maints.append(add(dict(kind='maint', capacity=rng.choice([None, 8, 8, 16, 0]), value=0)))

    # sources
    nsrc = rng.choice([1, 1, 1, 2])
    prev = []
    sources = []
    for _ in range(nsrc):
        c = cyc()
        budget = rng.choice([None, None, 3, 5, 8, 12, 0])
        if c == 0:
            budget = rng.choice([2, 4, 6])
        e = dict(kind='source', cycle=c, budget=budget, gen_value=8 * rng.choice([0, 1, 5, -2]), gen_quality=rng.choice([0, 4, 8, 12]),
                 gen_batch=(rng.choice([0, 2, 3]) if use_batches else 0))
        if use_batches and rng.random() < 0.35:
            e['gen_pattern'] = [rng.choice([0, 0, 1, 2, 3, 4, -1]) for _ in range(rng.choice([2, 3, 4, 5]))]
        i = add(e)
        prev.append(i)
        sources.append(i)
    processors, buffers, blockable, cyclers = [], [], [], []
    stages = [list(sources)]       # device ids per stage (what later stages may be wired to)
    rewirable = []                 # (device id, its stage index) of plain devices that may get new upstreams mid-run
    nstages = rng.randint(1, 3) if not big else rng.randint(2, 5)
    in_group_done = False
    for s in range(nstages):
        cur = []
        if use_groups and not in_group_done and s >= 0 and rng.random() < 0.7:
            # a shared group of 1-2 devices used through 2 paths
            in_group_done = True
            members = []
            gate_first = rng.random() < 0.3
            if gate_first:
                # a decision gate in front of the shared machine, judging by quality; the machine re-measures the quality of what it
                # finishes, so on a re-entrant route the same gate sees the same part again in a different state
                g0 = add(dict(kind='gate', decider=rng.choice([[2, 8], [3, 8], [2, 4]]), up=[]))
                members.append(g0)
            first = dict(kind=rng.choice(['processor', 'handler']), cycle=cyc(), up=[g0] if gate_first else [])
            buffer_first = not gate_first and rng.random() < 0.25
            if buffer_first:
                # the shared device is a buffer: on a re-entrant route the part it hands over comes straight back into it, during the hand-over
                first = dict(kind='buffer', min_delay=rng.choice([4, 4, 8]), capacity=rng.choice([2, 3, None]), up=[])      # (a positive delay: see DESIGN 0.6, round 12)
            if gate_first and first['kind'] == 'processor':
                first['on_finish'] = [['part_set_quality', rng.choice([0, 4, 8, 16])]]
            m1 = add(first)
            members.append(m1)
            if first['kind'] == 'processor':
                processors.append(m1)
            last_member = m1
            nested = rng.random() < 0.5 and not buffer_first
            if nested:
                # a nested group: an inner group of one device, entered from m1 through a path that is itself a member of the outer group
                inner = dict(kind=rng.choice(['processor', 'handler']), cycle=cyc(), up=[])
                xi = add(inner)
                if inner['kind'] == 'processor':
                    processors.append(xi)
                add(dict(kind='group', gid=2, devices=[xi]))
                p_in = add(dict(kind='path', gid=2, up=[m1]))
                members.append(p_in)
                last_member = p_in
            if rng.random() < 0.5 and not buffer_first:
                second = dict(kind=rng.choice(['processor', 'handler', 'buffer']), up=[last_member])
                if second['kind'] == 'buffer':
                    second.update(min_delay=rng.choice([0, 4, 8]), capacity=rng.choice([1, 2, None]))
                else:
                    second['cycle'] = cyc()
                m2 = add(second)
                members.append(m2)
                if second['kind'] == 'processor':
                    processors.append(m2)
            gid = 1
            add(dict(kind='group', gid=gid, devices=members))
            npaths = 2 if len(prev) >= 1 else 1
            split = [prev] if len(prev) == 1 else [prev[:1], prev[1:]]
            if len(prev) == 1:
                split = [prev, prev]
            for ups in split[:npaths]:
                p = add(dict(kind='path', gid=gid, up=list(ups)))
                cur.append(p)
                blockable.append(p)
            if nested and rng.random() < 0.5:
                # the inner group is also used directly by the line
                p = add(dict(kind='path', gid=2, up=list(prev[:1])))
                cur.append(p)
                blockable.append(p)
            prev = cur
            stages.append(list(cur))
            continue
        width = rng.choice([1, 1, 2, 2, 3]) if not big else rng.choice([1, 2, 2, 3])
        for _ in range(width):
            kinds = ['handler', 'processor', 'processor', 'buffer']
            if use_batches:
                kinds += ['batcher', 'batcher']
            if focus == 'buffers':
                kinds += ['buffer', 'buffer']
            k = rng.choice(kinds)
            ups = list(prev) if rng.random() < 0.7 else [rng.choice(prev)]
            if use_gates and rng.random() < 0.6:
                g = add(dict(kind='gate', decider=rng.choice(GATE_DECIDERS), up=ups))
                blockable.append(g)
                ups = [g]
            elif rng.random() < 0.05:
                pf = add(dict(kind='pfc', up=ups))
                ups = [pf]
            e = dict(kind=k, up=ups)
            if k in ('handler', 'processor'):
                e['cycle'] = cyc()
            if k == 'buffer':
                e.update(min_delay=rng.choice([0, 0, 4, 8, 16]), capacity=rng.choice([1, 2, 3, 5, None]))
            if k == 'batcher':
                e['batch_size'] = rng.choice([None, 2, 3, 1])
            if k == 'processor':
                if maints:
                    e.update(wo_dur=rng.choice([0, 8, 16, 24]), wo_cap=rng.choice([0, 8, 8, 16]), wo_cost=8 * rng.choice([0, 0, 10, -1]))
                if use_resources and rng.random() < 0.8:
                    e['req'] = [[rng.choice([0, 1]), rng.choice([8, 8, 16, 4, 2, 12])]]
                    if rng.random() < 0.25:
                        other = 1 - e['req'][0][0]
                        e['req'].append([other, rng.choice([8, 8, 4])])
                if rng.random() < 0.3:
                    e['on_finish'] = [rng.choice([['part_add_value', 8 * rng.choice([1, 3, -2, -9])], ['part_set_quality', rng.choice([0, 4, 8, 16])], ['log', 1],
                                                  ['offset_next', rng.choice([-8, -4, 4, 8, 12])]])]
                    if use_batches:
                        e['on_finish'] = [['log', 1]]
                if maints and rng.random() < 0.5:
                    e['on_shutdown'] = [['create_wo_if_failure', rng.choice(maints), rng.choice([-1, 0])], ['log', 2]]
                elif rng.random() < 0.3:
                    e['on_shutdown'] = [['log', 2]]
                if e.get('on_shutdown') and rng.random() < 0.25:
                    e['dup_shutdown'] = True      # the very same callback object is registered a second time
                if rng.random() < 0.2:
                    e['on_restore'] = [['log', 3]]
                    if rng.random() < 0.5:
                        e['on_restore'] = [['log', 3], ['log', 13], ['log', 23]][:rng.choice([2, 3])]
                    if rng.random() < 0.4:
                        e['dup_restore'] = True
            if k in ('handler', 'processor') and rng.random() < 0.2:
                e['on_receive'] = [rng.choice([['set_cycle', cyc()], ['offset_next', rng.choice([-8, -4, 4, 8])], ['log', 0],
                                               ['part_set_quality', rng.choice([0, 2, 16])], ['part_add_value', 8 * rng.choice([-3, 2, 5])]])]
                if use_batches and e['on_receive'][0][0] == 'part_add_value':
                    e['on_receive'] = [['log', 0]]
            i = add(e)
            cur.append(i)
            blockable.append(i)
            rewirable.append((i, len(stages)))
            if k == 'processor':
                processors.append(i)
            if k in ('processor', 'handler'):
                cyclers.append(i)
            if k == 'buffer':
                buffers.append(i)
        prev = cur
        stages.append(list(cur))
    if in_group_done and rng.random() < (0.7 if any(e['kind'] in ('gate', 'buffer') and e.get('up') == [] for e in ents) else 0.35):
        # re-entrant use: the line goes through the shared group a second time, through one more path
        p = add(dict(kind='path', gid=1, up=list(prev)))
        blockable.append(p)
        prev = [p]
    nsink = rng.choice([1, 1, 2])
    sinks = []
    for _ in range(nsink):
        ups = list(prev) if rng.random() < 0.8 else [rng.choice(prev)]
        se = dict(kind='sink', cycle=rng.choice([0, 0, 0, 4, 8]), collect=rng.random() < 0.5, up=ups)
        if not use_batches and rng.random() < 0.15:
            se['on_receive'] = [['part_add_value', 8 * rng.choice([2, -1, 5])]]      # a sink books the value the part has at receipt
        i = add(se)
        sinks.append(i)
        blockable.append(i)
    # make sure every last-stage device has a way out
    covered = set(u for e in ents if e['kind'] == 'sink' for u in e['up'])
    for p in prev:
        if p not in covered:
            ents[[k for k, e in enumerate(ents) if e['kind'] == 'sink'][0]]['up'].append(p)
    pools = []
    if use_resources:
        pools = [[0, 8 * rng.choice([1, 1, 2, 3])], [1, 8 * rng.choice([0, 1, 2])]]
    # user scripts
    uops = []

    def new_script(ops):
        uops.append(ops)
        return len(uops) - 1

    horizon = rng.choice([40, 80, 120]) if not big else rng.choice([160, 320, 640])
    ext = [['init']]
    nev = rng.randint(0, 3) if focus in ('plain', 'buffers', 'batches', 'gates', 'groups') else rng.randint(2, 6)
    if big:
        nev *= 2
    for _ in range(nev):
        t = rng.choice([0, 4, 8, 12, 16, 20, 24, 32, 40, 48, 64, 80])
        if big:
            t += rng.choice([0, 80, 160])
        r = rng.random()
        prio = rng.choice([32, 32, 184, 152, 72])
        if processors and r < 0.12 and focus in ('faults', 'maint'):
            # a failure that arrives while the machine is already shut down (requested during the shutdown)
            d = rng.choice(processors)
            d1, d2, d3 = rng.choice([0, 4]), rng.choice([0, 4, 8]), rng.choice([16, 24, 32])
            if maints and rng.random() < 0.5:
                ext.append(['at', t, new_script([['create_wo', rng.choice(maints), d, -1]]), prio])
            else:
                ext.append(['at', t, new_script([['shutdown', d]]), prio])
                ext.append(['at', t + d3, new_script([['restore', d]]), prio])
            ext.append(['at', t + d1, new_script([['fail_at', d, t + d1 + d2]]), 32])
            if rng.random() < 0.6:
                ext.append(['at', t + d3 + rng.choice([0, 8]), new_script([['restore', d]]), prio])
        elif processors and r < 0.30:
            d = rng.choice(processors)
            ext.append(['now', ['fail_at', d, t]])
            if rng.random() < 0.7:
                ext.append(['at', t + rng.choice([0, 4, 8, 16, 24]), new_script([['restore', d]]), prio])
        elif processors and r < 0.50:
            d = rng.choice(processors)
            ext.append(['at', t, new_script([['shutdown', d]]), prio])
            ext.append(['at', t + rng.choice([0, 4, 8, 16]), new_script([['restore', d]]), prio])
        elif processors and maints and r < 0.65:
            ext.append(['at', t, new_script([['create_wo', rng.choice(maints), rng.choice(processors), rng.choice([-1, 0])]]), prio])
        elif cyclers and r < 0.72:
            # a one-shot cycle-time offset requested from outside (applies to the next cycle only, floored at zero)
            ext.append(['at', t, new_script([['offset', rng.choice(cyclers), rng.choice([-24, -16, -8, -8, -4, 4, 8])]]), prio])
        elif rewirable and r < (0.79 if focus == 'rewire' else 0.735):
            # mid-run rewiring: the device gets its upstreams from earlier stages replaced
            d, k = rng.choice(rewirable)
            pool = [u for st in stages[:k] for u in st]
            ups = rng.sample(pool, min(len(pool), rng.choice([1, 1, 2])))
            ext.append(['at', t, new_script([['rewire', d] + ups + [0] * (2 - len(ups))]), prio])
        elif r < 0.80:
            d = rng.choice(blockable)
            ext.append(['at', t, new_script([['block', d, 1]]), prio])
            ext.append(['at', t + rng.choice([4, 8, 16, 24]), new_script([['block', d, 0]]), prio])
        elif use_resources and r < 0.92:
            ext.append(['at', t, new_script([['add_res', rng.choice([0, 1]), 8 * rng.choice([1, 1, -1, 2])]]), prio])
        else:
            ext.append(['at', t, new_script([['adjust', rng.choice(sources), rng.choice([-2, 1, 2, 3])]]), prio])
    gates_here = list(gate_ids)
    if gates_here and rng.random() < 0.6:
        # the input of a decision gate blocked for a while and reopened: a blocked gate refuses whatever its decider says
        g = rng.choice(gates_here)
        t1 = rng.choice([0, 4, 8, 12, 16, 24])
        ext.append(['at', t1, new_script([['block', g, 1]]), rng.choice([32, 184])])
        ext.append(['at', t1 + rng.choice([8, 16, 24, 40]), new_script([['block', g, 0]]), rng.choice([32, 184])])
    if use_resources and rng.random() < 0.45:
        # a pool's capacity taken down to exactly zero (possibly while a machine holds some of it) and raised again later
        n, cap = rng.choice(pools)
        t1 = rng.choice([4, 8, 12, 16, 24, 32])
        ext.append(['at', t1, new_script([['add_res', n, -cap]]), rng.choice([32, 184])])
        ext.append(['at', t1 + rng.choice([4, 8, 16, 24]), new_script([['add_res', n, rng.choice([8, 8, 16, cap or 8])]]), rng.choice([32, 184])])
    if len(maints) >= 2 and processors and rng.random() < 0.5:
        # two maintainers working on the same machine at overlapping times (the second order starts on a machine that is already down)
        d = rng.choice(processors)
        t = rng.choice([6, 10, 14, 18, 26])
        ext.append(['at', t, new_script([['create_wo', maints[0], d, -1]]), 184])
        ext.append(['at', t + rng.choice([0, 2, 4, 6]), new_script([['create_wo', maints[1], d, 0]]), 184])
    if maints and len(processors) >= 2 and rng.random() < 0.4:
        # two (or three) work orders in progress at once that finish in another order than they started
        m = rng.choice(maints)
        t = rng.choice([8, 12, 16, 24])
        a, b = rng.sample(processors, 2)
        ext.append(['at', t, new_script([['create_wo', m, a, -1]]), 184])
        ext.append(['at', t + rng.choice([0, 2, 4]), new_script([['create_wo', m, b, 0]]), 184])
        ext.append(['at', t + rng.choice([6, 10, 14]), new_script([['create_wo', m, a, 0]]), 184])
    if cyclers and rng.random() < 0.12:
        # a one-shot offset requested during set-up, before the simulation is initialised: it applies to the first cycle
        ext.insert(0, ['now', ['offset', rng.choice(cyclers + sources), rng.choice([-8, -4, 4, 8, 12, 24])]])
    # drive: many single steps (lock-step after every event), then runs
    nsteps = rng.randint(20, 70) if not big else rng.randint(60, 200)
    if rng.random() < 0.3:
        ext.append(['run', rng.choice([8, 16, 24])])
    ext += [['step']] * nsteps
    if rng.random() < 0.15:
        ext.append(['run', 0])         # a run of length zero executes what is due at the current instant
    ext.append(['run', horizon])
    if rng.random() < 0.3:
        ext.append(['run', rng.choice([8, 40, 0])])
    sc = dict(seed=rng.randint(0, 1000), mod=rng.choice([1, 3, 3, 1 << 20]), entities=ents, pools=pools, uops=uops, ext=ext, focus=focus)
    r = rng.random()
    if r < 0.06:
        sc['tick'] = 1024      # the same scenario on a grid of 1/1024 time (and value) units
    elif r < 0.09:
        sc['tick'] = 1 << 40   # ... and of 2**-40: every time and every value is below 1e-9, and exactly representable
    return sc
