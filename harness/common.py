"""Shared pieces of the correspondence harness.

Everything here runs under /venv/bin/python against /repo's *current working
tree* (sys.path is forced).  No repository hooks: the harness patches
random.random and wraps Event.__init__ in its own process only.
"""
import os
import sys
import subprocess
import random as _random

VERIF = os.path.dirname(os.path.dirname(os.path.abspath(__file__)))
REPO = os.environ.get('VERIF_REPO', '/repo')
if sys.path[0] != REPO:
    sys.path.insert(0, REPO)
os.environ.setdefault('PYTHONHASHSEED', '0')

SIMMODEL = os.path.join(VERIF, 'ocaml', 'simmodel')
TICK = 8          # one time unit = 8 ticks
PRIO = 16         # one priority unit = 16
WDEN = 1 << 20    # weights are k / 2^20


def wgen(seed, m, n):
    """Same function as FamEnv.wgen in the Coq model."""
    if m <= 0:
        m = 1
    return ((n + seed) * 7919 + n * n * 104729 + seed * seed * 31 + 17) % m


def to_ticks(x, unit=TICK):
    """Exact conversion of a float/int on the grid to an integer; raises off-grid."""
    if x is None:
        raise ValueError('None is not a grid value')
    y = x * unit
    iy = int(round(y))
    if iy != y:
        raise OffGrid(f'value {x!r} is not on the 1/{unit} grid')
    return iy


class OffGrid(Exception):
    pass


class WeightPatch:
    """Context manager: replaces random.random by the deterministic source and
    tags every created Event with its creation index."""

    def __init__(self, seed, mod, mode='patch'):
        self.seed, self.mod, self.n, self.mode, self.k = seed, mod, 0, mode, 0

    def __enter__(self):
        from simprocesd.model import simulation
        self._sim = simulation
        self._orig_random = simulation.random.random
        self._orig_init = simulation.Event.__init__
        patch = self

        def fake_random():
            k = wgen(patch.seed, patch.mod, patch.n)
            return k / WDEN

        def init(ev, *a, **kw):
            patch._orig_init(ev, *a, **kw)
            ev._verif_eid = patch.n
            patch.n += 1

        def init_skipterm(ev, *a, **kw):
            # the marker event of Environment.run gets a fixed weight and does not advance the weight counter
            patch._orig_init(ev, *a, **kw)
            ev._verif_eid = patch.n
            patch.n += 1
            if getattr(ev.action, '__name__', '') == '_terminate':
                ev.random_weight = 0.0
            else:
                ev.random_weight = wgen(patch.seed, patch.mod, patch.k) / WDEN
                patch.k += 1

        if self.mode == 'patch':
            simulation.random.random = fake_random
            simulation.Event.__init__ = init
        elif self.mode == 'skipterm':
            simulation.Event.__init__ = init_skipterm
        else:
            simulation.random.seed(self.seed)
            simulation.Event.__init__ = init
        return self

    def __exit__(self, *exc):
        self._sim.random.random = self._orig_random
        self._sim.Event.__init__ = self._orig_init
        return False


class DataTap:
    """Every add_datapoint call seen by a harness, grouped the way the library keeps its tables (label -> sub-label -> list);
    diff(env) compares them with Environment.simulation_data: what is stored is exactly what was reported, in order (C15)."""

    def __init__(self):
        self.calls = {}

    def add(self, label, sub, dp):
        self.calls.setdefault((label, sub), []).append(dp)

    def diff(self, env):
        data = env.simulation_data
        for (label, sub), lst in self.calls.items():
            got = data.get(label, {}).get(sub)
            if got is None:
                return 'no table %r/%r although %d datapoints were reported' % (label, sub, len(lst))
            if len(got) != len(lst):
                return 'table %r/%r holds %d datapoints, %d were reported (last reported: %r)' % (label, sub, len(got), len(lst), lst[-1])
            for i, (a, b) in enumerate(zip(got, lst)):
                if a is not b and a != b:
                    return 'table %r/%r entry %d is %r, reported was %r' % (label, sub, i, a, b)
        for label, d in data.items():
            for sub, lst in d.items():
                if lst and (label, sub) not in self.calls:
                    return 'table %r/%r holds %d datapoints that were never reported' % (label, sub, len(lst))
        return None


def run_model(family, inputs, chunk=200):
    """Run the extracted model on a list of integer inputs; returns list of int lists."""
    lines = [' '.join(str(x) for x in [family] + list(inp)) for inp in inputs]
    def _big_stack():
        # list append/map in the extracted code are not tail-recursive; long event traces need a deep stack
        import resource
        try:
            resource.setrlimit(resource.RLIMIT_STACK, (resource.RLIM_INFINITY, resource.RLIM_INFINITY))
        except (ValueError, OSError):
            pass
    p = subprocess.run([SIMMODEL], input='\n'.join(lines) + '\n', capture_output=True, text=True, check=True, preexec_fn=_big_stack)
    outs = p.stdout.split('\n')
    res = []
    for i in range(len(inputs)):
        res.append([int(t) for t in outs[i].split()])
    return res


def first_diff(a, b):
    n = min(len(a), len(b))
    for i in range(n):
        if a[i] != b[i]:
            return i
    if len(a) != len(b):
        return n
    return None
