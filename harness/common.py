"""Shared pieces of the correspondence harness.

Everything here runs under /venv/bin/python against /repo's *current working
tree* (sys.path is forced).  No repository hooks: the harness patches
random.random and wraps Event.__init__ in its own process only.
"""
import os
import sys
import subprocess
import random as _random

VERIF = os.path.dirname(os.path.dirname(os.path.abspath(__file__)))
REPO = os.environ.get('VERIF_REPO', '/repo')
if sys.path[0] != REPO:
    sys.path.insert(0, REPO)
os.environ.setdefault('PYTHONHASHSEED', '0')

SIMMODEL = os.path.join(VERIF, 'ocaml', 'simmodel')
TICK = 8          # one time unit = 8 ticks
PRIO = 16         # one priority unit = 16
WDEN = 1 << 20    # weights are k / 2^20


def wgen(seed, m, n):
    """Same function as FamEnv.wgen in the Coq model."""
    if m <= 0:
        m = 1
    return ((n + seed) * 7919 + n * n * 104729 + seed * seed * 31 + 17) % m


def to_ticks(x, unit=TICK):
    """Exact conversion of a float/int on the grid to an integer; raises off-grid."""
    if x is None:
        raise ValueError('None is not a grid value')
    y = x * unit
    iy = int(round(y))
    if iy != y:
        raise OffGrid(f'value {x!r} is not on the 1/{unit} grid')
    return iy


class OffGrid(Exception):
    pass


class WeightPatch:
    """Context manager: replaces random.random by the deterministic source and
    tags every created Event with its creation index."""

    def __init__(self, seed, mod, mode='patch'):
        self.seed, self.mod, self.n, self.mode, self.k = seed, mod, 0, mode, 0

    def __enter__(self):
        from simprocesd.model import simulation
        self._sim = simulation
        self._orig_random = simulation.random.random
        self._orig_init = simulation.Event.__init__
        patch = self

        def fake_random():
            k = wgen(patch.seed, patch.mod, patch.n)
            return k / WDEN

        def init(ev, *a, **kw):
            patch._orig_init(ev, *a, **kw)
            ev._verif_eid = patch.n
            patch.n += 1

        def init_skipterm(ev, *a, **kw):
            # the marker event of Environment.run gets a fixed weight and does not advance the weight counter
            patch._orig_init(ev, *a, **kw)
            ev._verif_eid = patch.n
            patch.n += 1
            if getattr(ev.action, '__name__', '') == '_terminate':
                ev.random_weight = 0.0
            else:
                ev.random_weight = wgen(patch.seed, patch.mod, patch.k) / WDEN
                patch.k += 1

        if self.mode == 'patch':
            simulation.random.random = fake_random
            simulation.Event.__init__ = init
        elif self.mode == 'skipterm':
            simulation.Event.__init__ = init_skipterm
        else:
            simulation.random.seed(self.seed)
            simulation.Event.__init__ = init
        return self

    def __exit__(self, *exc):
        self._sim.random.random = self._orig_random
        self._sim.Event.__init__ = self._orig_init
        return False


def run_model(family, inputs, chunk=200):
    """Run the extracted model on a list of integer inputs; returns list of int lists."""
    lines = [' '.join(str(x) for x in [family] + list(inp)) for inp in inputs]
    def _big_stack():
        # list append/map in the extracted code are not tail-recursive; long event traces need a deep stack
        import resource
        try:
            resource.setrlimit(resource.RLIMIT_STACK, (resource.RLIM_INFINITY, resource.RLIM_INFINITY))
        except (ValueError, OSError):
            pass
    p = subprocess.run([SIMMODEL], input='\n'.join(lines) + '\n', capture_output=True, text=True, check=True, preexec_fn=_big_stack)
    outs = p.stdout.split('\n')
    res = []
    for i in range(len(inputs)):
        res.append([int(t) for t in outs[i].split()])
    return res


def first_diff(a, b):
    n = min(len(a), len(b))
    for i in range(n):
        if a[i] != b[i]:
            return i
    if len(a) != len(b):
        return n
    return None
