"""Family F_repro (C14): reproducibility of whole-line simulations.

A scenario is an F_floor scenario.  The lock-step part is the F_floor one (the model is a pure function of the scenario and of the
tie-break weights, so agreement with it is what makes two runs with the same weights equal).  On top of it the implementation is
run again in several ways and the results are compared by the monitor:
  again    the same scenario, same weights, after the global asset-id counter moved on   -> identical after id normalisation
  seeded   the real random generator, random.seed(s), twice                              -> identical
  split    every run(d) executed as run(d//2); run(d - d//2), tie-break choices fixed    -> identical evolution (events compared
           without their creation numbers; the marker events of run() are the only difference)
  mp       System.simulate_multiple_times with max_processes 0 and 2                     -> one system per index, in index order, same results
"""
import contextlib
import io
import random
from collections import Counter
from . import common
from . import fam_floor
from .floor_gen import gen as floor_gen

FAMILY = 6
NAME = 'repro'
Discard = fam_floor.Discard
TooLong = fam_floor.TooLong
encode = fam_floor.encode


def gen(rng, size='small'):
    sc = floor_gen(rng, 'small' if size == 'small' else 'large', focus=rng.choice(['plain', 'plain', 'faults', 'buffers', 'gates', 'resources', 'maint']))
    sc['mp'] = rng.random() < (0.06 if size == 'small' else 0.1)
    sc['offset'] = rng.choice([1, 3, 10])
    return sc


def _bump_ids(k):
    from simprocesd.model.factory_floor import Part
    for _ in range(k):
        Part()


# ---- multi-process experiment: a top-level, picklable simulation function built from library classes only
def _mp_sim(system, index, seed, c1, c2, dur):
    from simprocesd.model.factory_floor import Source, PartProcessor, Sink, Buffer, PartGenerator
    random.seed(seed * 1000 + index)
    src = Source('src', cycle_time=c1, part_generator=PartGenerator('p', value=1 + index))
    a = PartProcessor('a', upstream=[src], cycle_time=c2)
    b = PartProcessor('b', upstream=[src], cycle_time=c2 + index % 2)
    buf = Buffer('buf', upstream=[a, b], capacity=2)
    Sink('snk', upstream=[buf], cycle_time=c1 / 2)
    system.env.add_datapoint('index', 'i', (index,))
    system.simulate(dur, print_summary=False)


def _mp_result(s):
    from simprocesd.model.factory_floor import Sink
    data = {lab: {sub: [tuple(x) if isinstance(x, (list, tuple)) else x for x in v] for sub, v in d.items()} for lab, d in s.simulation_data.items()}
    # part ids depend on the process-wide counter: keep everything but them
    rec = {sub: [(r[0], r[2], r[3]) for r in v] for sub, v in data.get('received_part', {}).items()}
    sinks = s.find_assets(type_=Sink)
    try:
        net = s.get_net_value_of_assets()
    except Exception as e:          # noqa: BLE001  (whatever it raises is part of the result)
        net = 'raised %s' % type(e).__name__
    return dict(index=data.get('index', {}).get('i'), received={k: v for k, v in rec.items()}, count=[k.received_parts_count for k in sinks], now=s.env.now,
                byid=[len(s.find_assets(id_=int(str(k.id)))) for k in sinks],      # look-up by an equal id (a fresh int object)
                net=net, own=sum(a.value for a in s.find_assets()))


def run_mp(sc):
    from simprocesd.model import System
    n = 3
    args = (sc['seed'], 1 + sc['seed'] % 3, 2 + sc['seed'] % 2, 40)
    out = {}
    for p in (0, 2):
        with contextlib.redirect_stdout(io.StringIO()):
            systems = System.simulate_multiple_times(_mp_sim, n, p, *args)
        out[p] = [_mp_result(s) for s in systems]
    return out


def _late_model(seed, mod, durs, mode='callback'):
    """Source -> machine -> sink through the genuine System.simulate (whose first call initialises the simulation); the sink's
    receive callback creates a further asset when its k-th part arrives.  Returns everything observable at the end."""
    from simprocesd.model import System
    from simprocesd.model.factory_floor import Source, PartProcessor, Sink, ActionScheduler
    from simprocesd.model.sensors import PeriodicSensor, AttributeProbe
    c1, c2, k = 1 + seed % 3, 1.5 + (seed // 3) % 2, 2 + (seed // 6) % 4
    with common.WeightPatch(seed, mod, 'skipterm'), contextlib.redirect_stdout(io.StringIO()):
        system = System()
        src = Source('src', cycle_time=c1)
        m = PartProcessor('m', upstream=[src], cycle_time=c2)
        snk = Sink('snk', upstream=[m])
        made, calls = [], []

        def create():
            on_receive(snk, None, True)

        def on_receive(sink, part, force=False):
            if mode != 'callback' and not force:
                return
            if (force or sink.received_parts_count == k) and not made:
                if seed % 2:
                    made.append(PeriodicSensor(1.25, [AttributeProbe('received_parts_count', snk)], 'late_sensor'))
                else:
                    sch = ActionScheduler([(1.25, 'x'), (0.75, 'y')], 'late_sched')
                    sch.register_object(snk, lambda sc_, o, t, st: calls.append((t, st)))
                    made.append(sch)
        snk.add_receive_part_callback(on_receive)
        if mode == 'event':
            # the asset is created by the last event executed at the instant at which the other variant splits the run
            from simprocesd.model import EventType
            system.env.schedule_event(durs[0], -5, create, EventType.TERMINATE + 0.5)
            durs = [sum(durs)]
        for j, d in enumerate(durs):
            system.simulate(d, print_summary=False)
            if mode == 'between' and j == 0:
                create()
        data = {lab: {sub: [tuple(x) if isinstance(x, (list, tuple)) else x for x in v] for sub, v in dd.items()} for lab, dd in system.simulation_data.items()}
        # part ids come from the process-wide counter: number them from the first one this model generated
        plabels = ('received_part', 'produced_part', 'supplied_new_part')
        ids = [r[1] for lab in plabels for v in data.get(lab, {}).values() for r in v]
        base = min(ids) if ids else 0
        for lab in plabels:
            for sub, v in data.get(lab, {}).items():
                data[lab][sub] = [(r[0], r[1] - base) + tuple(r[2:]) for r in v]
        extra = None
        if made and seed % 2:
            extra = {str(kk): list(v) for kk, v in made[0].data.items()} if hasattr(made[0], 'data') else None
        elif made:
            extra = (made[0].current_state, list(calls))
        # look-ups by an id that is equal to an asset's id but another int object: what they find may not depend on how large the ids
        # are, i.e. on how many assets were created earlier in the process
        byid = [len(system.find_assets(id_=int(str(a.id)))) for a in (src, m, snk)]
        return dict(now=system.env.now, count=snk.received_parts_count, data={l: d for l, d in data.items()}, created=len(made), extra=extra, byid=byid)


def run_split_late(sc):
    seed, mod = sc['seed'], sc.get('mod', 1)
    a = 3 + seed % 5
    b = 6 + (seed // 5) % 6
    whole = _late_model(seed, mod, [a + b])
    parts = _late_model(seed, mod, [a, b])
    # the same asset created at the split point: between the two calls, against by the last event of that instant in one run
    # (all tie-break weights equal, so that the extra event of the second variant changes no choice)
    ev = _late_model(seed, 1, [a, b], 'event')
    bt = _late_model(seed, 1, [a, b], 'between')
    return dict(byid=whole['byid'], a=a, b=b, same=(whole == parts), whole=whole if whole != parts else None, parts=parts if whole != parts else None,
                same_at_split=(ev == bt), ev=ev if ev != bt else None, bt=bt if ev != bt else None)


def run_impl(sc):
    flat, obs = fam_floor.run_impl(sc)
    if not obs:
        return flat, obs
    rep = {}
    _bump_ids(sc.get('offset', 1))
    flat2, _ = fam_floor.run_impl(sc)
    rep['again'] = common.first_diff(flat, flat2)
    # ... and once more with the asset ids straddling a power of ten (default names are <Class>_<id>: nothing may depend on how they sort)
    from simprocesd.model.factory_floor import Asset
    saved = Asset._id_counter
    Asset._id_counter = 10 ** len(str(saved)) - 1 - (1 + sc['seed'] % 3)
    flat3, _ = fam_floor.run_impl(sc)
    rep['straddle'] = common.first_diff(flat, flat3)
    Asset._id_counter = saved + 7          # (nothing of the earlier runs is alive any more: the counter need not keep growing tenfold)
    s1, _ = fam_floor.run_impl(sc, weights='seeded')
    _bump_ids(2)
    s2, _ = fam_floor.run_impl(sc, weights='seeded')
    rep['seeded'] = common.first_diff(s1, s2)
    if all(o['st'] == 0 for o in obs) and any(x[0] == 'run' for x in sc['ext']):
        # only the states after run() are comparable: single steps in between would execute the marker events at different points
        r1, _ = fam_floor.run_impl(sc, weights='skipterm', reduced=True)
        r2, _ = fam_floor.run_impl(sc, weights='skipterm', reduced=True, split=True)
        rep['split'] = common.first_diff(r1, r2)
        if rep['split'] is not None:
            rep['split_where'] = fam_floor.locate(sc, r1, rep['split'])
    if sc.get('mp'):
        rep['mp'] = run_mp(sc)
    if sc['seed'] % 4 == 0:
        rep['split_late'] = run_split_late(sc)
    obs[-1]['repro'] = rep
    return flat, obs


def monitor_c14(sc, obs):
    v = []

    def bad(sig, what):
        v.append(dict(sig=sig, what=what))
    if not obs or 'repro' not in obs[-1]:
        return v
    rep = obs[-1]['repro']
    if rep.get('again') is not None:
        bad('C14/not-reproducible', 'the same scenario with the same tie-break weights, run again after the asset-id counter advanced by %d, differs at position %d of the normalised state trace' % (sc.get('offset', 1), rep['again']))
    if rep.get('straddle') is not None:
        bad('C14/not-reproducible', 'the same scenario with the same tie-break weights, run again with asset ids straddling a power of ten, differs at position %d of the normalised state trace' % rep['straddle'])
    if rep.get('seeded') is not None:
        bad('C14/seeded-differs', 'two runs after random.seed(%d) differ at position %d of the normalised state trace' % (sc['seed'], rep['seeded']))
    if rep.get('split') is not None:
        bad('C14/split-differs', 'running d as d//2 then d - d//2 (tie-break choices held fixed) gives a different evolution: first difference at %s' % rep.get('split_where'))
    sl = rep.get('split_late')
    if sl and not sl['same']:
        def brief(r):
            return dict(now=r['now'], count=r['count'], created=r['created'], extra=r['extra'])
        bad('C14/split-differs', 'a line whose sink callback creates a further asset during the run: simulate(%d) then simulate(%d) ends differently from simulate(%d) (tie-break choices held fixed): %s vs %s'
            % (sl['a'], sl['b'], sl['a'] + sl['b'], brief(sl['parts']), brief(sl['whole'])))
    if sl and sl.get('byid') not in (None, [1, 1, 1]):
        bad('C14/depends-on-id-offset', 'find_assets(id_=<an int equal to the id>) finds %s assets for source, machine and sink (asset ids of this run start above %d): with small ids each is found once'
            % (sl['byid'], 256))
    if sl and not sl.get('same_at_split', True):
        def brief2(r):
            return dict(now=r['now'], count=r['count'], created=r['created'], extra=r['extra'])
        bad('C14/split-differs', 'a sensor or scheduler created when the clock shows %d: simulate(%d), create, simulate(%d) ends differently from one simulate(%d) in which the last event of that instant creates it: %s vs %s'
            % (sl['a'], sl['a'], sl['b'], sl['a'] + sl['b'], brief2(sl['bt']), brief2(sl['ev'])))
    mp = rep.get('mp')
    if mp:
        for p in (0, 2):
            idx = [r['index'] for r in mp[p]]
            if idx != [[(i,)] for i in range(len(idx))]:
                bad('C14/mp-order', 'simulate_multiple_times(max_processes=%d) returned systems with indices %s, expected one per index in order' % (p, idx))
        for p in (0, 2):
            for k, r in enumerate(mp[p]):
                if r['net'] != r['own']:
                    bad('C14/mp-net-value', 'system %d returned by simulate_multiple_times(max_processes=%d) reports net value %s, its own assets are worth %s in all' % (k, p, r['net'], r['own']))
        if [dict(r, index=None) for r in mp[0]] != [dict(r, index=None) for r in mp[2]]:
            bad('C14/mp-differs', 'results of simulate_multiple_times differ between max_processes=0 and max_processes=2: %s vs %s' % (
                [r['count'] for r in mp[0]], [r['count'] for r in mp[2]]))
    return v


MONITORS = {'C14': monitor_c14}


def stats(sc, obs):
    c = fam_floor.stats(sc, obs)
    if obs and 'repro' in obs[-1]:
        for k in obs[-1]['repro']:
            c['variant:' + k] += 1
    return c


def nontrivial(prop, sc, obs):
    if not obs or 'repro' not in obs[-1]:
        return False
    recs = Counter(r[0] for o in obs for r in o['data'])
    return recs[6] >= 6 and 'split' in obs[-1]['repro']


shrink_candidates = fam_floor.shrink_candidates
locate = fam_floor.locate
